module verifharness

go 1.21

require (
	github.com/anishathalye/porcupine v1.3.0
	github.com/zerx-lab/wordZero v0.0.0
)

require (
	github.com/litao91/goldmark-mathjax v0.0.0-20210217064022-a43cf739a50f // indirect
	github.com/yuin/goldmark v1.7.8 // indirect
)

replace github.com/zerx-lab/wordZero => /repo
