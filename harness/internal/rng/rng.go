// Package rng is the deterministic PRNG (splitmix64) every generator draws from.
package rng

type R struct{ s uint64 }

func New(seed uint64) *R { return &R{s: seed*0x9E3779B97F4A7C15 + 0x1234567} }

// Derive gives an independent stream for (seed, labels...).
func Derive(seed uint64, labels ...uint64) *R {
	r := New(seed)
	for _, l := range labels {
		r.s ^= l * 0xBF58476D1CE4E5B9
		r.U64()
	}
	return r
}

func (r *R) U64() uint64 {
	r.s += 0x9E3779B97F4A7C15
	z := r.s
	z = (z ^ (z >> 30)) * 0xBF58476D1CE4E5B9
	z = (z ^ (z >> 27)) * 0x94D049BB133111EB
	return z ^ (z >> 31)
}

// Intn returns a value in [0,n). n<=0 returns 0.
func (r *R) Intn(n int) int {
	if n <= 0 {
		return 0
	}
	return int(r.U64() % uint64(n))
}

// Range returns a value in [lo,hi].
func (r *R) Range(lo, hi int) int {
	if hi <= lo {
		return lo
	}
	return lo + r.Intn(hi-lo+1)
}

func (r *R) Bool() bool { return r.U64()&1 == 1 }

// Chance returns true with probability num/den.
func (r *R) Chance(num, den int) bool { return r.Intn(den) < num }

func (r *R) Float() float64 { return float64(r.U64()>>11) / float64(1<<53) }

func (r *R) Pick(xs []string) string {
	if len(xs) == 0 {
		return ""
	}
	return xs[r.Intn(len(xs))]
}

func (r *R) Perm(n int) []int {
	p := make([]int, n)
	for i := range p {
		p[i] = i
	}
	for i := n - 1; i > 0; i-- {
		j := r.Intn(i + 1)
		p[i], p[j] = p[j], p[i]
	}
	return p
}
