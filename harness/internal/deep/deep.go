// Package deep: reflection-based snapshot / alias monitors (M3).
package deep

import (
	"fmt"
	"hash/fnv"
	"reflect"
	"sort"
	"strings"
)

type walker struct {
	b     strings.Builder
	seen  map[uintptr]int
	depth int
}

// Dump renders everything reachable from v deterministically (pointers followed, maps sorted, cycles cut).
func Dump(v interface{}) string {
	w := &walker{seen: map[uintptr]int{}}
	w.walk(reflect.ValueOf(v))
	return w.b.String()
}

// Hash is the FNV hash of Dump.
func Hash(v interface{}) uint64 {
	h := fnv.New64a()
	h.Write([]byte(Dump(v)))
	return h.Sum64()
}

func (w *walker) walk(v reflect.Value) {
	if !v.IsValid() {
		w.b.WriteString("<invalid>")
		return
	}
	w.depth++
	defer func() { w.depth-- }()
	if w.depth > 200 {
		w.b.WriteString("<deep>")
		return
	}
	switch v.Kind() {
	case reflect.Ptr:
		if v.IsNil() {
			w.b.WriteString("nil")
			return
		}
		p := v.Pointer()
		if id, ok := w.seen[p]; ok && v.Elem().Kind() == reflect.Struct {
			fmt.Fprintf(&w.b, "&#%d", id)
			return
		}
		w.seen[p] = len(w.seen) + 1
		w.b.WriteString("&")
		w.walk(v.Elem())
	case reflect.Interface:
		if v.IsNil() {
			w.b.WriteString("nil")
			return
		}
		w.b.WriteString(v.Elem().Type().String() + ":")
		w.walk(v.Elem())
	case reflect.Struct:
		w.b.WriteString(v.Type().Name() + "{")
		for i := 0; i < v.NumField(); i++ {
			f := v.Type().Field(i)
			if f.Type.String() == "sync.RWMutex" || f.Type.String() == "sync.Mutex" {
				continue
			}
			fv := v.Field(i)
			if isZero(fv) {
				continue
			}
			w.b.WriteString(f.Name + ":")
			w.walk(fv)
			w.b.WriteString(",")
		}
		w.b.WriteString("}")
	case reflect.Slice:
		if v.IsNil() {
			w.b.WriteString("nil[]")
			return
		}
		if v.Type().Elem().Kind() == reflect.Uint8 {
			h := fnv.New64a()
			bs := make([]byte, v.Len())
			for i := range bs { // element-wise: reflect.Copy refuses values reached through unexported fields
				bs[i] = byte(v.Index(i).Uint())
			}
			h.Write(bs)
			fmt.Fprintf(&w.b, "bytes[%d]#%x", v.Len(), h.Sum64())
			return
		}
		w.b.WriteString("[")
		for i := 0; i < v.Len(); i++ {
			w.walk(v.Index(i))
			w.b.WriteString(",")
		}
		w.b.WriteString("]")
	case reflect.Array:
		w.b.WriteString("[")
		for i := 0; i < v.Len(); i++ {
			w.walk(v.Index(i))
			w.b.WriteString(",")
		}
		w.b.WriteString("]")
	case reflect.Map:
		if v.IsNil() {
			w.b.WriteString("nilmap")
			return
		}
		keys := v.MapKeys()
		ks := make([]string, len(keys))
		idx := map[string]reflect.Value{}
		for i, k := range keys {
			kw := &walker{seen: map[uintptr]int{}}
			kw.walk(k)
			ks[i] = kw.b.String()
			idx[ks[i]] = k
		}
		sort.Strings(ks)
		w.b.WriteString("map{")
		for _, k := range ks {
			w.b.WriteString(k + "=>")
			w.walk(v.MapIndex(idx[k]))
			w.b.WriteString(",")
		}
		w.b.WriteString("}")
	case reflect.String:
		fmt.Fprintf(&w.b, "%q", v.String())
	case reflect.Bool:
		fmt.Fprintf(&w.b, "%v", v.Bool())
	case reflect.Int, reflect.Int8, reflect.Int16, reflect.Int32, reflect.Int64:
		fmt.Fprintf(&w.b, "%d", v.Int())
	case reflect.Uint, reflect.Uint8, reflect.Uint16, reflect.Uint32, reflect.Uint64, reflect.Uintptr:
		fmt.Fprintf(&w.b, "%d", v.Uint())
	case reflect.Float32, reflect.Float64:
		fmt.Fprintf(&w.b, "%g", v.Float())
	case reflect.Func, reflect.Chan, reflect.UnsafePointer:
		if v.IsNil() {
			w.b.WriteString("nil")
		} else {
			w.b.WriteString("<" + v.Kind().String() + ">")
		}
	default:
		w.b.WriteString("<?>")
	}
}

func isZero(v reflect.Value) bool {
	switch v.Kind() {
	case reflect.Ptr, reflect.Interface, reflect.Map, reflect.Slice, reflect.Func, reflect.Chan:
		return v.IsNil()
	case reflect.String:
		return v.Len() == 0
	case reflect.Bool:
		return !v.Bool()
	case reflect.Int, reflect.Int8, reflect.Int16, reflect.Int32, reflect.Int64:
		return v.Int() == 0
	}
	return false
}

// addrs collects the heap identities (pointer targets, slice backing arrays with len>0, maps) reachable from v.
func addrs(v reflect.Value, out map[uintptr]string, path string, depth int) {
	if !v.IsValid() || depth > 200 {
		return
	}
	switch v.Kind() {
	case reflect.Ptr:
		if v.IsNil() {
			return
		}
		p := v.Pointer()
		if _, ok := out[p]; ok {
			return
		}
		// zero-size targets share an address legitimately
		if v.Elem().Type().Size() > 0 {
			out[p] = path
		}
		addrs(v.Elem(), out, path, depth+1)
	case reflect.Interface:
		if !v.IsNil() {
			addrs(v.Elem(), out, path, depth+1)
		}
	case reflect.Struct:
		for i := 0; i < v.NumField(); i++ {
			addrs(v.Field(i), out, path+"."+v.Type().Field(i).Name, depth+1)
		}
	case reflect.Slice:
		if v.IsNil() || v.Len() == 0 {
			return
		}
		if v.Type().Elem().Size() > 0 {
			p := v.Pointer()
			if _, ok := out[p]; !ok {
				out[p] = path + "[]"
			}
		}
		for i := 0; i < v.Len(); i++ {
			addrs(v.Index(i), out, path+"[]", depth+1)
		}
	case reflect.Array:
		for i := 0; i < v.Len(); i++ {
			addrs(v.Index(i), out, path+"[]", depth+1)
		}
	case reflect.Map:
		if v.IsNil() {
			return
		}
		p := v.Pointer()
		if _, ok := out[p]; ok {
			return
		}
		out[p] = path + "{}"
		for _, k := range v.MapKeys() {
			addrs(v.MapIndex(k), out, path+"{}", depth+1)
		}
	}
}

// Aliases returns the field paths (in a) of heap objects reachable from both a and b.
func Aliases(a, b interface{}) []string {
	ma, mb := map[uintptr]string{}, map[uintptr]string{}
	addrs(reflect.ValueOf(a), ma, "", 0)
	addrs(reflect.ValueOf(b), mb, "", 0)
	set := map[string]bool{}
	for p, path := range ma {
		if _, ok := mb[p]; ok {
			set[stripIdx(path)] = true
		}
	}
	var out []string
	for s := range set {
		out = append(out, s)
	}
	sort.Strings(out)
	return out
}

func stripIdx(p string) string { return strings.TrimPrefix(p, ".") }

// Scribble overwrites every settable string/bool/int reachable from v (pointers, slices, maps of pointers followed)
// with sentinels and returns the number of fields written.
func Scribble(v interface{}) int {
	n := 0
	scribble(reflect.ValueOf(v), map[uintptr]bool{}, &n, 0)
	return n
}

func scribble(v reflect.Value, seen map[uintptr]bool, n *int, depth int) {
	if !v.IsValid() || depth > 200 {
		return
	}
	switch v.Kind() {
	case reflect.Ptr:
		if v.IsNil() || seen[v.Pointer()] {
			return
		}
		seen[v.Pointer()] = true
		scribble(v.Elem(), seen, n, depth+1)
	case reflect.Interface:
		if !v.IsNil() {
			scribble(v.Elem(), seen, n, depth+1)
		}
	case reflect.Struct:
		for i := 0; i < v.NumField(); i++ {
			if v.Type().Field(i).PkgPath != "" { // unexported
				continue
			}
			scribble(v.Field(i), seen, n, depth+1)
		}
	case reflect.Slice, reflect.Array:
		for i := 0; i < v.Len(); i++ {
			scribble(v.Index(i), seen, n, depth+1)
		}
	case reflect.Map:
		for _, k := range v.MapKeys() {
			scribble(v.MapIndex(k), seen, n, depth+1)
		}
	case reflect.String:
		if v.CanSet() {
			v.SetString("☠scribbled")
			*n++
		}
	case reflect.Bool:
		if v.CanSet() {
			v.SetBool(!v.Bool())
			*n++
		}
	case reflect.Int, reflect.Int8, reflect.Int16, reflect.Int32, reflect.Int64:
		if v.CanSet() {
			v.SetInt(v.Int() + 77)
			*n++
		}
	}
}
