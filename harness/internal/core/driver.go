package core

import (
	"bufio"
	"encoding/json"
	"fmt"
	"os"
	"os/exec"
	"path/filepath"
	"runtime"
	"sort"
	"strconv"
	"strings"
	"sync"
	"syscall"
	"time"
)

// VerifDir is the root of the verification tree.
func VerifDir() string {
	if v := os.Getenv("VERIF_DIR"); v != "" {
		return v
	}
	return "/verif"
}

type observed struct {
	Finding
	Case  int
	Count int
	Race  bool
}

type knownEntry struct {
	Prop, Key, Desc string
}

func loadKnown(prop string) ([]knownEntry, error) {
	f, err := os.Open(filepath.Join(VerifDir(), "KNOWN_FINDINGS.txt"))
	if err != nil {
		if os.IsNotExist(err) {
			return nil, nil
		}
		return nil, err
	}
	defer f.Close()
	var out []knownEntry
	sc := bufio.NewScanner(f)
	sc.Buffer(make([]byte, 1<<20), 1<<20)
	for sc.Scan() {
		line := strings.TrimSpace(sc.Text())
		if !strings.HasPrefix(line, "known:") {
			continue
		}
		fields := strings.Fields(strings.TrimPrefix(line, "known:"))
		var e knownEntry
		rest := []string{}
		for _, fl := range fields {
			switch {
			case strings.HasPrefix(fl, "property=") && e.Prop == "":
				e.Prop = strings.TrimPrefix(fl, "property=")
			case strings.HasPrefix(fl, "key=") && e.Key == "":
				e.Key = strings.TrimPrefix(fl, "key=")
			default:
				rest = append(rest, fl)
			}
		}
		e.Desc = strings.Join(rest, " ")
		if e.Prop == prop && e.Key != "" {
			out = append(out, e)
		}
	}
	return out, sc.Err()
}

type workerState struct {
	k        int
	start    int
	journal  string
	stderr   string
	restarts int
}

type driveOut struct {
	results  map[int]*Result
	crashes  []observed
	inconcl  []string
	restarts int
}

// runPool executes cases [0,n) of ck in child processes of binary bin.
func runPool(ck *Check, bin, tier string, seed uint64, n, jobs int, runDir string, race bool, extraEnv []string) *driveOut {
	out := &driveOut{results: map[int]*Result{}}
	if n <= 0 {
		return out
	}
	if jobs > n {
		jobs = n
	}
	timeout := time.Duration(ck.CaseTimeoutS) * time.Second
	if timeout == 0 {
		timeout = 60 * time.Second
	}
	if tier == "thorough" {
		timeout *= 3
	}
	if race {
		timeout *= 4
	}
	var mu sync.Mutex
	var wg sync.WaitGroup
	for k := 0; k < jobs; k++ {
		wg.Add(1)
		go func(k int) {
			defer wg.Done()
			tag := fmt.Sprintf("w%02d", k)
			if race {
				tag = "r" + tag
			}
			ws := &workerState{k: k, journal: filepath.Join(runDir, tag+".journal"), stderr: filepath.Join(runDir, tag+".stderr")}
			wdir := filepath.Join(runDir, tag+".d")
			os.MkdirAll(wdir, 0755)
			for {
				os.Remove(ws.journal)
				errf, _ := os.Create(ws.stderr)
				args := []string{"work", "-prop", ck.ID, "-tier", tier, "-seed", strconv.FormatUint(seed, 10),
					"-k", strconv.Itoa(k), "-stride", strconv.Itoa(jobs), "-start", strconv.Itoa(ws.start), "-n", strconv.Itoa(n),
					"-journal", ws.journal, "-workdir", wdir}
				if race {
					args = append(args, "-race")
				}
				cmd := exec.Command(bin, args...)
				cmd.Stdout = errf
				cmd.Stderr = errf
				cmd.Env = append(os.Environ(), extraEnv...)
				cmd.SysProcAttr = &syscall.SysProcAttr{Setpgid: true}
				if err := cmd.Start(); err != nil {
					mu.Lock()
					out.inconcl = append(out.inconcl, "cannot start worker: "+err.Error())
					mu.Unlock()
					errf.Close()
					return
				}
				done := make(chan error, 1)
				go func() { done <- cmd.Wait() }()
				hung := false
				var werr error
				lastSize := int64(-1)
				lastChange := time.Now()
			wait:
				for {
					select {
					case werr = <-done:
						break wait
					case <-time.After(500 * time.Millisecond):
						if st, err := os.Stat(ws.journal); err == nil {
							if st.Size() != lastSize {
								lastSize = st.Size()
								lastChange = time.Now()
							}
						}
						if time.Since(lastChange) > timeout {
							hung = true
							cmd.Process.Signal(syscall.SIGQUIT)
							select {
							case werr = <-done:
							case <-time.After(10 * time.Second):
								syscall.Kill(-cmd.Process.Pid, syscall.SIGKILL)
								werr = <-done
							}
							break wait
						}
					}
				}
				errf.Close()
				res, inflight, finished := readJournal(ws.journal)
				mu.Lock()
				for i, r := range res {
					out.results[i] = r
				}
				mu.Unlock()
				if finished && werr == nil {
					return
				}
				// the worker died (or hung) while running case `inflight`
				stderrText := tailFile(ws.stderr, 64<<10)
				if inflight < 0 {
					mu.Lock()
					out.inconcl = append(out.inconcl, fmt.Sprintf("worker %s died outside a case: %v\n%s", tag, werr, lastN(stderrText, 2000)))
					mu.Unlock()
					return
				}
				if hung {
					// a watchdog firing is only a hang if the case does not finish in isolation with ten times the budget
					// (a loaded machine or a legitimately expensive input must not be reported as non-termination)
					if r2 := retryAlone(ck, bin, tier, seed, inflight, runDir, tag, race, extraEnv, 10*timeout); r2 != nil {
						mu.Lock()
						if r2.Stats == nil {
							r2.Stats = map[string]int64{}
						}
						r2.Stats["slow_cases_finished_on_isolated_retry"]++
						out.results[inflight] = r2
						mu.Unlock()
						ws.start = inflight + 1
						continue
					}
				}
				var ob observed
				ob.Case = inflight
				ob.Race = race
				if hung {
					fn := InnermostLibFunc(stderrText)
					ob.Key = "hang/" + fn
					ob.Summary = fmt.Sprintf("case %d made no progress for %s (worker killed)", inflight, timeout)
					ob.Detail = lastN(stderrText, 3000)
				} else {
					kind, fn := classifyDeath(stderrText)
					ob.Key = "crash:" + kind + "/" + fn
					ob.Summary = fmt.Sprintf("worker process died in case %d: %s", inflight, firstFatalLine(stderrText))
					ob.Detail = lastN(headOfFatal(stderrText), 3000)
				}
				mu.Lock()
				out.crashes = append(out.crashes, ob)
				out.restarts++
				mu.Unlock()
				ws.restarts++
				if ws.restarts > 400 {
					mu.Lock()
					out.inconcl = append(out.inconcl, fmt.Sprintf("worker %s restarted more than 400 times; remaining cases skipped", tag))
					mu.Unlock()
					return
				}
				ws.start = inflight + 1
			}
		}(k)
	}
	wg.Wait()
	return out
}

// retryAlone runs one case in a fresh worker with a larger budget; nil if it does not finish (or dies).
func retryAlone(ck *Check, bin, tier string, seed uint64, cs int, runDir, tag string, race bool, extraEnv []string, budget time.Duration) *Result {
	journal := filepath.Join(runDir, tag+".retry.journal")
	os.Remove(journal)
	errf, _ := os.Create(filepath.Join(runDir, tag+".retry.stderr"))
	defer errf.Close()
	wdir := filepath.Join(runDir, tag+".retry.d")
	os.MkdirAll(wdir, 0755)
	args := []string{"work", "-prop", ck.ID, "-tier", tier, "-seed", strconv.FormatUint(seed, 10), "-k", "0", "-stride", "1", "-start", strconv.Itoa(cs), "-n", strconv.Itoa(cs + 1), "-journal", journal, "-workdir", wdir}
	if race {
		args = append(args, "-race")
	}
	cmd := exec.Command(bin, args...)
	cmd.Stdout, cmd.Stderr = errf, errf
	cmd.Env = append(os.Environ(), extraEnv...)
	cmd.SysProcAttr = &syscall.SysProcAttr{Setpgid: true}
	if cmd.Start() != nil {
		return nil
	}
	done := make(chan error, 1)
	go func() { done <- cmd.Wait() }()
	select {
	case <-done:
	case <-time.After(budget):
		syscall.Kill(-cmd.Process.Pid, syscall.SIGKILL)
		<-done
		return nil
	}
	res, _, _ := readJournal(journal)
	return res[cs]
}

func readJournal(path string) (res map[int]*Result, inflight int, finished bool) {
	res = map[int]*Result{}
	inflight = -1
	f, err := os.Open(path)
	if err != nil {
		return
	}
	defer f.Close()
	sc := bufio.NewScanner(f)
	sc.Buffer(make([]byte, 1<<20), 64<<20)
	for sc.Scan() {
		line := sc.Text()
		switch {
		case strings.HasPrefix(line, "B "):
			inflight, _ = strconv.Atoi(line[2:])
		case strings.HasPrefix(line, "E "):
			rest := line[2:]
			sp := strings.IndexByte(rest, ' ')
			if sp < 0 {
				continue
			}
			i, _ := strconv.Atoi(rest[:sp])
			var r Result
			if err := json.Unmarshal([]byte(rest[sp+1:]), &r); err == nil {
				res[i] = &r
				if i == inflight {
					inflight = -1
				}
			}
		case line == "DONE":
			finished = true
		}
	}
	return
}

func tailFile(path string, n int64) string {
	f, err := os.Open(path)
	if err != nil {
		return ""
	}
	defer f.Close()
	st, _ := f.Stat()
	// keep the head (the fatal line and first goroutine are at the start of the dump)
	buf := make([]byte, n)
	m, _ := f.Read(buf)
	s := string(buf[:m])
	if st != nil && st.Size() > n {
		s += "\n…"
	}
	return s
}

func lastN(s string, n int) string {
	if len(s) > n {
		return s[:n] + "…"
	}
	return s
}

func headOfFatal(s string) string {
	for _, marker := range []string{"fatal error:", "panic:", "runtime: goroutine stack exceeds", "SIGQUIT"} {
		if i := strings.Index(s, marker); i >= 0 {
			return s[i:]
		}
	}
	return s
}

func firstFatalLine(s string) string {
	h := headOfFatal(s)
	if i := strings.IndexByte(h, '\n'); i >= 0 {
		h = h[:i]
	}
	return lastN(h, 200)
}

func classifyDeath(stderrText string) (kind, fn string) {
	h := headOfFatal(stderrText)
	kind, _ = ClassifyPanic(firstLines(h, 4), "")
	// the stack of the crashing goroutine follows the first "goroutine N [running]" header
	if i := strings.Index(h, "[running]"); i >= 0 {
		fn = InnermostLibFunc(h[i:])
	}
	if fn == "" {
		fn = InnermostLibFunc(h)
	}
	if fn == "" {
		fn = "<no-library-frame>"
	}
	return
}

// Options of one driver invocation.
type Options struct {
	Prop, Tier string
	Seed       uint64
	Bin        string // this binary
	RaceBin    string // -race build (may be "")
}

// Drive runs the whole check and returns the process exit code.
func Drive(o Options) int {
	t0 := time.Now()
	ck := Get(o.Prop)
	if ck == nil {
		fmt.Printf("unknown property %s\n", o.Prop)
		return 2
	}
	if ck.SelfTest != nil {
		if err := ck.SelfTest(); err != nil {
			fmt.Printf("BROKEN property=%s harness self-test failed: %v\n", o.Prop, err)
			return 2
		}
	}
	known, err := loadKnown(o.Prop)
	if err != nil {
		fmt.Printf("BROKEN property=%s cannot read KNOWN_FINDINGS.txt: %v\n", o.Prop, err)
		return 2
	}
	jobs := runtime.NumCPU()
	if v, err := strconv.Atoi(os.Getenv("VERIF_JOBS")); err == nil && v > 0 {
		jobs = v
	}
	runDir := filepath.Join(VerifDir(), ".build", "run", fmt.Sprintf("%s-%d", o.Prop, os.Getpid()))
	os.RemoveAll(runDir)
	os.MkdirAll(runDir, 0755)
	defer os.RemoveAll(runDir)

	n := ck.Cases(o.Tier)
	plain := runPool(ck, o.Bin, o.Tier, o.Seed, n, jobs, runDir, false, nil)

	var raceOut *driveOut
	var raceBlocks []RaceBlock
	nRace := 0
	if ck.RaceCases != nil {
		nRace = ck.RaceCases(o.Tier)
	}
	if nRace > 0 {
		if o.RaceBin == "" {
			fmt.Printf("BROKEN property=%s race binary not built\n", o.Prop)
			return 2
		}
		raceLog := filepath.Join(runDir, "race")
		env := []string{"GORACE=halt_on_error=0 history_size=3 log_path=" + raceLog}
		rj := jobs / 2
		if rj < 1 {
			rj = 1
		}
		raceOut = runPool(ck, o.RaceBin, o.Tier, o.Seed, nRace, rj, runDir, true, env)
		raceBlocks = ParseRaceLogs(runDir, "race.")
	}

	// aggregate
	agg := map[string]*observed{}
	add := func(f Finding, cs int, race bool) {
		if ob, ok := agg[f.Key]; ok {
			ob.Count++
			return
		}
		agg[f.Key] = &observed{Finding: f, Case: cs, Count: 1, Race: race}
	}
	stats := map[string]int64{}
	sigs := map[string]bool{}
	var samples []interface{}
	evaluations := 0
	inconcl := append([]string{}, plain.inconcl...)
	collect := func(d *driveOut, race bool) {
		idx := make([]int, 0, len(d.results))
		for i := range d.results {
			idx = append(idx, i)
		}
		sort.Ints(idx)
		for _, i := range idx {
			r := d.results[i]
			evaluations++
			for _, f := range r.Findings {
				add(f, i, race)
			}
			for k, v := range r.Stats {
				stats[k] += v
			}
			if r.Inconcl != "" {
				inconcl = append(inconcl, fmt.Sprintf("case %d: %s", i, lastN(r.Inconcl, 300)))
			}
			if r.Nontrivial {
				s := r.Sig
				if s == "" {
					s = fmt.Sprintf("case-%v-%d", race, i)
				}
				if !sigs[s] {
					sigs[s] = true
					if r.Sample != nil && len(samples) < 4 {
						samples = append(samples, r.Sample)
					}
				}
			}
		}
		for _, c := range d.crashes {
			evaluations++
			add(c.Finding, c.Case, race)
		}
	}
	collect(plain, false)
	if raceOut != nil {
		inconcl = append(inconcl, raceOut.inconcl...)
		collect(raceOut, true)
		pairs := map[string]int{}
		for _, b := range raceBlocks {
			key := "race/" + b.PairKey()
			if ck.RaceClass != nil {
				if cl := ck.RaceClass(b.A, b.B); cl != "" {
					key = "race/" + cl
				}
			}
			pairs[key]++
			if _, ok := agg[key]; !ok {
				agg[key] = &observed{Finding: Finding{Key: key, Summary: "data race between " + b.A + " and " + b.B, Detail: lastN(b.Text, 3000)}, Case: -1, Race: true}
			}
			agg[key].Count++
		}
		stats["race_blocks"] = int64(len(raceBlocks))
		stats["race_distinct_pairs"] = int64(len(pairs))
	}

	// known vs new
	knownByKey := map[string]knownEntry{}
	for _, k := range known {
		knownByKey[k.Key] = k
	}
	keys := make([]string, 0, len(agg))
	for k := range agg {
		keys = append(keys, k)
	}
	sort.Strings(keys)
	var violations []*observed
	knownSeen := map[string]int{}
	for _, k := range keys {
		if _, ok := knownByKey[k]; ok {
			knownSeen[k] = agg[k].Count
		} else {
			violations = append(violations, agg[k])
		}
	}
	for _, k := range known {
		fmt.Printf("KNOWN-FINDING: property=%s key=%s %s (observed %d× in this run)\n", o.Prop, k.Key, k.Desc, knownSeen[k.Key])
	}
	os.MkdirAll(filepath.Join(VerifDir(), "replays"), 0755)
	for _, v := range violations {
		rp := filepath.Join(VerifDir(), "replays", fmt.Sprintf("%s-%s-%d-%s.json", o.Prop, o.Tier, o.Seed, sanitize(v.Key)))
		rec := map[string]interface{}{"property": o.Prop, "tier": o.Tier, "seed": o.Seed, "case": v.Case, "race": v.Race,
			"finding": v.Finding, "observed_count": v.Count}
		b, _ := json.MarshalIndent(rec, "", " ")
		os.WriteFile(rp, b, 0644)
		fmt.Printf("VIOLATION property=%s replay=%s\n", o.Prop, rp)
		fmt.Printf("  key=%s (%d×) %s\n", v.Key, v.Count, v.Summary)
	}

	distinct := len(sigs)
	for k, v := range stats {
		_ = k
		_ = v
	}
	cov := map[string]interface{}{
		"evaluations":             evaluations,
		"distinct_nontrivial":     distinct,
		"rule":                    ck.Rule,
		"samples":                 samples,
		"monitor_events":          stats,
		"inconclusive":            len(inconcl),
		"known_findings_observed": knownSeen,
		"worker_restarts":         plain.restarts,
		"jobs":                    jobs,
	}
	if ck.Exhaustive {
		cov["exhaustive"] = true
	}
	if len(inconcl) > 0 {
		m := inconcl
		if len(m) > 5 {
			m = m[:5]
		}
		cov["inconclusive_examples"] = m
	}
	if len(samples) == 0 {
		cov["samples"] = []interface{}{"(no non-trivial case produced a sample)"}
	}
	ev := map[string]interface{}{
		"property_id": o.Prop,
		"tier":        o.Tier,
		"seed":        o.Seed,
		"level":       ck.Level,
		"coverage":    cov,
		"assumptions": ck.Assume,
		"wall_s":      time.Since(t0).Seconds(),
		"violations":  len(violations),
	}
	evDir := filepath.Join(VerifDir(), "evidence")
	if os.Getenv("VERIF_NOEVIDENCE") != "" { // runs against scratch copies (mutants, seeded changes) must not overwrite the evidence of the real tree
		evDir = filepath.Join(VerifDir(), ".build", "evidence-scratch")
	}
	os.MkdirAll(evDir, 0755)
	b, _ := json.MarshalIndent(ev, "", " ")
	if err := os.WriteFile(filepath.Join(evDir, o.Prop+".json"), b, 0644); err != nil {
		fmt.Printf("BROKEN property=%s cannot write evidence: %v\n", o.Prop, err)
		return 2
	}
	fmt.Printf("SUMMARY property=%s tier=%s seed=%d cases=%d distinct_nontrivial=%d violations=%d known_observed=%d inconclusive=%d wall=%.1fs\n",
		o.Prop, o.Tier, o.Seed, evaluations, distinct, len(violations), len(knownSeen), len(inconcl), time.Since(t0).Seconds())
	statKeys := make([]string, 0, len(stats))
	for k := range stats {
		statKeys = append(statKeys, k)
	}
	sort.Strings(statKeys)
	var sb strings.Builder
	for _, k := range statKeys {
		fmt.Fprintf(&sb, " %s=%d", k, stats[k])
	}
	fmt.Printf("OBSERVED%s\n", sb.String())
	for i, s := range inconcl {
		if i >= 5 {
			break
		}
		fmt.Printf("INCONCLUSIVE %s\n", lastN(s, 400))
	}
	if len(violations) > 0 {
		return 1
	}
	minNT := ck.MinNontrivial
	if minNT == 0 {
		minNT = 2
	}
	if distinct < minNT {
		fmt.Printf("BROKEN property=%s only %d distinct non-trivial cases observed (minimum %d): monitors saw too little\n", o.Prop, distinct, minNT)
		return 2
	}
	if len(inconcl) > evaluations/4+2 {
		fmt.Printf("BROKEN property=%s too many inconclusive cases (%d of %d)\n", o.Prop, len(inconcl), evaluations)
		return 2
	}
	return 0
}

func sanitize(s string) string {
	var b strings.Builder
	for _, r := range s {
		if (r >= 'a' && r <= 'z') || (r >= 'A' && r <= 'Z') || (r >= '0' && r <= '9') || r == '-' || r == '.' {
			b.WriteRune(r)
		} else {
			b.WriteByte('_')
		}
	}
	out := b.String()
	if len(out) > 120 {
		out = out[:120]
	}
	return out
}
