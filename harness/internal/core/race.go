package core

import (
	"os"
	"path/filepath"
	"sort"
	"strings"
)

// RaceBlock is one "WARNING: DATA RACE" report.
type RaceBlock struct {
	A, B string // innermost library function of each access ("" -> "<none>")
	Text string
}

func (b RaceBlock) PairKey() string {
	x := []string{b.A, b.B}
	sort.Strings(x)
	return x[0] + "|" + x[1]
}

// ParseRaceLogs reads every file dir/prefix* written by the race runtime.
func ParseRaceLogs(dir, prefix string) []RaceBlock {
	var out []RaceBlock
	files, _ := filepath.Glob(filepath.Join(dir, prefix+"*"))
	sort.Strings(files)
	for _, f := range files {
		b, err := os.ReadFile(f)
		if err != nil {
			continue
		}
		out = append(out, ParseRaceText(string(b))...)
	}
	return out
}

func ParseRaceText(s string) []RaceBlock {
	var out []RaceBlock
	for _, blk := range strings.Split(s, "==================") {
		if !strings.Contains(blk, "WARNING: DATA RACE") {
			continue
		}
		var acc []string
		for _, sec := range strings.Split(blk, "\n\n") {
			t := strings.TrimSpace(sec)
			t = strings.TrimPrefix(t, "WARNING: DATA RACE\n")
			t = strings.TrimSpace(t)
			if strings.HasPrefix(t, "Read at") || strings.HasPrefix(t, "Write at") || strings.HasPrefix(t, "Previous read") || strings.HasPrefix(t, "Previous write") ||
				strings.HasPrefix(t, "Atomic") || strings.HasPrefix(t, "Previous atomic") {
				fn := InnermostLibFunc(t)
				if fn == "" {
					fn = "<none>"
				}
				// strip closure line-number free suffix normalisation: keep as is
				acc = append(acc, strings.TrimSuffix(fn, "()"))
			}
		}
		rb := RaceBlock{Text: strings.TrimSpace(blk)}
		if len(acc) > 0 {
			rb.A = acc[0]
		}
		if len(acc) > 1 {
			rb.B = acc[1]
		}
		if rb.A == "" {
			rb.A = "<none>"
		}
		if rb.B == "" {
			rb.B = "<none>"
		}
		out = append(out, rb)
	}
	return out
}
