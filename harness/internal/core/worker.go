package core

import (
	"encoding/json"
	"fmt"
	"os"
	"regexp"
	"runtime"
	"runtime/debug"
	"runtime/metrics"
	"strconv"
	"strings"
	"time"
)

// WorkerLoop runs cases k, k+stride, ... < n starting at the first index >= start.
func WorkerLoop(ck *Check, tier string, seed uint64, k, stride, start, n int, journal, workDir string, race bool) {
	ms := ck.MaxStackMB
	if ms == 0 {
		ms = 64
	}
	debug.SetMaxStack(ms << 20)
	debug.SetMemoryLimit(6 << 30)
	go memoryMonitor()
	jf, err := os.OpenFile(journal, os.O_CREATE|os.O_WRONLY|os.O_APPEND, 0644)
	if err != nil {
		fmt.Fprintln(os.Stderr, "journal:", err)
		os.Exit(3)
	}
	defer jf.Close()
	for i := k; i < n; i += stride {
		if i < start {
			continue
		}
		fmt.Fprintf(jf, "B %d\n", i)
		ctx := &Ctx{Prop: ck.ID, Tier: tier, Seed: seed, Case: i, WorkDir: workDir, Race: race}
		res := RunCase(ck, ctx)
		b, err := json.Marshal(res)
		if err != nil {
			b, _ = json.Marshal(&Result{Inconcl: "result not serialisable: " + err.Error()})
		}
		fmt.Fprintf(jf, "E %d %s\n", i, b)
	}
	fmt.Fprintf(jf, "DONE\n")
}

// RunCase executes one case; a panic escaping the case body itself (i.e. a
// harness bug or an unguarded library call) is reported as a finding.
func RunCase(ck *Check, ctx *Ctx) (res *Result) {
	defer func() {
		if r := recover(); r != nil {
			st := string(debug.Stack())
			kind, fn := ClassifyPanic(fmt.Sprint(r), st)
			res = &Result{}
			if fn == "" {
				res.Inconcl = fmt.Sprintf("harness panic: %v\n%s", r, st)
				return
			}
			res.Add("panic:"+kind+"/"+fn, fmt.Sprintf("unguarded panic in case %d: %v", ctx.Case, r), st)
		}
	}()
	return ck.Run(ctx)
}

// Caught describes a recovered panic.
type Caught struct {
	Kind, Func, Msg, Stack string
}

func (c *Caught) Key() string { return "panic:" + c.Kind + "/" + c.Func }

// Catch runs f and reports a panic raised inside it (nil if none).
func Catch(f func()) (c *Caught) {
	defer func() {
		if r := recover(); r != nil {
			st := string(debug.Stack())
			kind, fn := ClassifyPanic(fmt.Sprint(r), st)
			if fn == "" {
				fn = "<harness>"
			}
			c = &Caught{Kind: kind, Func: fn, Msg: fmt.Sprint(r), Stack: st}
		}
	}()
	f()
	return nil
}

var frameRe = regexp.MustCompile(`(?m)^(github\.com/zerx-lab/wordZero/[^\s(]+(?:\([^)]*\))?[^\s(]*)\(`)

// ClassifyPanic extracts the crash kind and the innermost library function from a message and stack text.
func ClassifyPanic(msg, stack string) (kind, fn string) {
	m := msg + "\n" + firstLines(stack, 3)
	switch {
	case strings.Contains(m, "nil pointer dereference"):
		kind = "nil-deref"
	case strings.Contains(m, "index out of range"):
		kind = "index-range"
	case strings.Contains(m, "slice bounds out of range"):
		kind = "slice-bounds"
	case strings.Contains(m, "stack overflow") || strings.Contains(m, "stack exceeds"):
		kind = "stack-overflow"
	case strings.Contains(m, "concurrent map"):
		kind = "concurrent-map"
	case strings.Contains(m, "nil map"):
		kind = "nil-map"
	case strings.Contains(m, "interface conversion"):
		kind = "type-assert"
	case strings.Contains(m, "checkptr"):
		kind = "checkptr"
	case strings.Contains(m, "out of memory") || strings.Contains(m, "cannot allocate"):
		kind = "oom"
	default:
		kind = "other"
	}
	return kind, InnermostLibFunc(stack)
}

func firstLines(s string, n int) string {
	parts := strings.SplitN(s, "\n", n+1)
	if len(parts) > n {
		parts = parts[:n]
	}
	return strings.Join(parts, "\n")
}

// InnermostLibFunc returns the first (innermost) wordZero frame of a stack dump, without package path and line.
func InnermostLibFunc(stack string) string {
	for _, line := range strings.Split(stack, "\n") {
		line = strings.TrimSpace(line)
		if !strings.HasPrefix(line, "github.com/zerx-lab/wordZero/") {
			continue
		}
		// strip args
		if i := strings.LastIndex(line, "("); i > 0 {
			line = line[:i]
		}
		line = strings.TrimPrefix(line, "github.com/zerx-lab/wordZero/")
		// pkg/document.(*Document).parseDocument -> document.(*Document).parseDocument
		line = strings.TrimPrefix(line, "pkg/")
		line = strings.TrimSuffix(line, "...")
		return line
	}
	return ""
}

// memoryMonitor ends the worker with a recognisable fatal report when the live heap of the process passes the limit
// (VERIF_MEMLIMIT_MB, default 3072): an input that makes the library allocate gigabytes is a crash for the caller, and it must
// be attributed to its case before the machine starts swapping. The verdict depends on the heap size only.
func memoryMonitor() {
	limit := uint64(3072)
	if v, err := strconv.ParseUint(os.Getenv("VERIF_MEMLIMIT_MB"), 10, 64); err == nil && v > 0 {
		limit = v
	}
	limit <<= 20
	samples := []metrics.Sample{{Name: "/memory/classes/heap/objects:bytes"}}
	for {
		time.Sleep(50 * time.Millisecond)
		metrics.Read(samples)
		if samples[0].Value.Kind() == metrics.KindUint64 && samples[0].Value.Uint64() > limit {
			// the metric counts objects that are dead but not yet swept as well: collect first, only what is still reachable counts
			runtime.GC()
			metrics.Read(samples)
			if samples[0].Value.Uint64() <= limit {
				continue
			}
			buf := make([]byte, 1<<20)
			n := runtime.Stack(buf, true)
			fmt.Fprintf(os.Stderr, "fatal error: out of memory (verif monitor: live heap %d MiB exceeds %d MiB)\n\n%s\n", samples[0].Value.Uint64()>>20, limit>>20, buf[:n])
			os.Exit(4)
		}
	}
}
