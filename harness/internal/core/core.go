// Package core: case/finding types, the check registry, the child-process
// worker loop and the parent driver (journal, watchdog, crash classification,
// known-findings matching, evidence writer).
package core

import (
	"fmt"
	"sort"
	"strings"
)

// Finding is one rejected observation.
type Finding struct {
	Key     string `json:"key"`     // <rule-or-op>/<class>[/<detail>] — never from random data
	Summary string `json:"summary"` // one line, human readable
	Detail  string `json:"detail,omitempty"`
}

// Result is what one case reports back to the driver.
type Result struct {
	Findings   []Finding        `json:"f,omitempty"`
	Nontrivial bool             `json:"nt,omitempty"`  // the case reached the property's non-triviality rule
	Sig        string           `json:"sig,omitempty"` // signature used to count distinct cases
	Stats      map[string]int64 `json:"st,omitempty"`  // additive counters (events observed)
	Sample     interface{}      `json:"sample,omitempty"`
	Inconcl    string           `json:"inc,omitempty"` // non-empty: case was inconclusive, why
}

func (r *Result) Add(key, summary string, detail ...string) {
	d := strings.Join(detail, "\n")
	if len(d) > 4000 {
		d = d[:4000] + "…"
	}
	for _, f := range r.Findings {
		if f.Key == key {
			return
		}
	}
	if len(summary) > 400 {
		summary = summary[:400] + "…"
	}
	r.Findings = append(r.Findings, Finding{Key: key, Summary: summary, Detail: d})
}

func (r *Result) Addf(key, format string, a ...interface{}) { r.Add(key, fmt.Sprintf(format, a...)) }

func (r *Result) Count(name string, n int64) {
	if r.Stats == nil {
		r.Stats = map[string]int64{}
	}
	r.Stats[name] += n
}

// Ctx is handed to a case.
type Ctx struct {
	Prop    string
	Tier    string // quick | thorough
	Seed    uint64
	Case    int
	Verbose bool   // replay mode
	WorkDir string // scratch directory private to this worker
	Race    bool   // running in the -race binary
}

// Check is one property's machinery.
type Check struct {
	ID             string
	Level          string                   // evidence level
	Rule           string                   // how cases are generated and what makes one non-trivial / distinct
	Cases          func(tier string) int    // number of cases per tier
	Run            func(c *Ctx) *Result     // executes one case against the real library
	Assume         []string                 // assumptions / trusted base
	CrashIsFinding bool                     // a worker death during a case is a violation of this property
	CaseTimeoutS   int                      // per-case watchdog in seconds (0 = default)
	MinNontrivial  int                      // fewer distinct non-trivial cases than this => broken check (exit 2)
	RaceCases      func(tier string) int    // cases run in the -race binary (0 = none)
	RaceClass      func(a, b string) string // maps a pair of innermost library functions to a site class ("" = use the pair)
	SelfTest       func() error             // harness self-check run by the driver before the workload
	Exhaustive     bool
	MaxStackMB     int // per-goroutine stack limit of the worker (default 64)
}

var registry = map[string]*Check{}

func Register(c *Check) { registry[c.ID] = c }

func Get(id string) *Check { return registry[id] }

func IDs() []string {
	var out []string
	for k := range registry {
		out = append(out, k)
	}
	sort.Strings(out)
	return out
}
