// Package canon: canonical XML trees and structured diff (M2).
package canon

import (
	"fmt"
	"sort"
	"strings"

	"verifharness/internal/opc"
)

// textElements keep their character data verbatim; everywhere else whitespace-only text is dropped.
var textElements = map[string]bool{"t": true, "instrText": true, "delText": true}

// emptyOptional containers are treated as absent when they have neither attributes nor children.
var emptyOptional = map[string]bool{"rPr": true, "pPr": true, "tcPr": true, "tblPr": true, "trPr": true, "sectPr": true, "jc": true}

// unordered collections: children are sorted by (local name, key attribute).
var unorderedParents = map[string]string{"styles": "styleId", "numbering": "abstractNumId|numId", "footnotes": "id", "endnotes": "id", "Relationships": "Id", "Types": "Extension|PartName"}

var prefixes = map[string]string{opc.NsW: "w", opc.NsR: "r", opc.NsA: "a", opc.NsWP: "wp", opc.NsPic: "pic", opc.NsM: "m", opc.NsXML: "xml", opc.NsRel: "rel", opc.NsCT: "ct"}

func qn(space, local string) string {
	if space == "" {
		return local
	}
	if p, ok := prefixes[space]; ok {
		return p + ":" + local
	}
	return "{" + space + "}" + local
}

// Node is a canonical element.
type Node struct {
	Name     string
	Attrs    []string // sorted "name=value"
	Text     string
	Children []*Node
}

// Options tune canonicalisation.
type Options struct {
	MaskElements map[string]bool // qualified names whose text is masked (time stamps)
	DropAttrs    map[string]bool // qualified attribute names ignored
}

// Build converts a parsed tree.
func Build(n *opc.Node, o *Options) *Node { return build(n, o, false) }

func build(n *opc.Node, o *Options, preserve bool) *Node {
	if n == nil {
		return nil
	}
	c := &Node{Name: qn(n.Space, n.Local)}
	for _, a := range n.Attrs {
		an := qn(a.Space, a.Local)
		if o != nil && o.DropAttrs[an] {
			continue
		}
		if an == "xml:space" {
			// not compared as an attribute: what it means is compared through the text (below); it is inherited by descendants
			preserve = a.Value == "preserve"
			continue
		}
		c.Attrs = append(c.Attrs, an+"="+a.Value)
	}
	sort.Strings(c.Attrs)
	if textElements[n.Local] {
		// the text as a consumer sees it: without xml:space="preserve" leading and trailing white space is not significant
		c.Text = n.Text
		if !preserve {
			c.Text = strings.TrimSpace(n.Text)
		}
	} else {
		c.Text = strings.TrimSpace(n.Text)
	}
	if o != nil && o.MaskElements[c.Name] {
		c.Text = "<masked>"
	}
	for _, k := range n.Children {
		kc := build(k, o, preserve)
		if emptyOptional[k.Local] && len(kc.Attrs) == 0 && len(kc.Children) == 0 && kc.Text == "" {
			continue
		}
		c.Children = append(c.Children, kc)
	}
	if keys, ok := unorderedParents[n.Local]; ok {
		ks := strings.Split(keys, "|")
		keyOf := func(x *Node) string {
			for _, a := range x.Attrs {
				for _, k := range ks {
					if strings.HasPrefix(a, "w:"+k+"=") || strings.HasPrefix(a, k+"=") {
						return x.Name + "\x00" + a
					}
				}
			}
			return x.Name + "\x01"
		}
		sort.SliceStable(c.Children, func(i, j int) bool { return keyOf(c.Children[i]) < keyOf(c.Children[j]) })
	}
	return c
}

// String renders the canonical form.
func (n *Node) String() string {
	var b strings.Builder
	n.write(&b, 0)
	return b.String()
}

func (n *Node) write(b *strings.Builder, d int) {
	if n == nil {
		return
	}
	b.WriteString(strings.Repeat(" ", d))
	b.WriteString("<" + n.Name)
	for _, a := range n.Attrs {
		b.WriteString(" " + a)
	}
	b.WriteString(">")
	if n.Text != "" {
		fmt.Fprintf(b, "%q", n.Text)
	}
	b.WriteString("\n")
	for _, c := range n.Children {
		c.write(b, d+1)
	}
}

// Bytes canonicalises a part; ok=false if it is not well-formed.
func Bytes(data []byte, o *Options) (string, bool) {
	t, pr := opc.ParseXML(data)
	if t == nil || len(pr) > 0 {
		return "", false
	}
	return Build(t, o).String(), true
}

// EqualXML compares two XML parts canonically.
func EqualXML(a, b []byte, o *Options) bool {
	ca, oka := Bytes(a, o)
	cb, okb := Bytes(b, o)
	return oka && okb && ca == cb
}

// DiffItem is one structural difference.
type DiffItem struct {
	Kind string // lost | gained | changed
	Path string // chain of element names from the anchor
	Attr string
	A, B string
}

func (d DiffItem) Key() string {
	k := d.Kind + "/" + d.Path
	if d.Attr != "" {
		k += "@" + d.Attr
	}
	return k
}

// anchors cut the path so that keys stay short and stable.
var anchors = map[string]bool{"w:p": true, "w:tc": true, "w:tbl": true, "w:sectPr": true, "w:r": true, "w:body": true, "w:tr": true}

// Diff reports differences going from a to b ("lost" = in a, not in b).
func Diff(a, b *Node) []DiffItem {
	var out []DiffItem
	diff(a, b, nil, &out)
	return out
}

func pathOf(stack []string, name string) string {
	full := append(append([]string{}, stack...), name)
	start := 0
	for i := len(full) - 1; i >= 0; i-- {
		if anchors[full[i]] && i < len(full)-1 {
			start = i
			break
		}
	}
	return strings.Join(full[start:], "/")
}

func attrMap(n *Node) map[string]string {
	m := map[string]string{}
	for _, a := range n.Attrs {
		i := strings.Index(a, "=")
		m[a[:i]] = a[i+1:]
	}
	return m
}

func diff(a, b *Node, stack []string, out *[]DiffItem) {
	if len(*out) > 40 {
		return
	}
	p := pathOf(stack, a.Name)
	am, bm := attrMap(a), attrMap(b)
	for k, v := range am {
		if w, ok := bm[k]; !ok {
			*out = append(*out, DiffItem{"lost", p, k, v, ""})
		} else if w != v {
			*out = append(*out, DiffItem{"changed", p, k, v, w})
		}
	}
	for k, w := range bm {
		if _, ok := am[k]; !ok {
			*out = append(*out, DiffItem{"gained", p, k, "", w})
		}
	}
	if a.Text != b.Text {
		*out = append(*out, DiffItem{"changed", p, "#text", a.Text, b.Text})
	}
	// align children by name with an LCS over names
	an, bn := a.Children, b.Children
	la, lb := len(an), len(bn)
	lcs := make([][]int, la+1)
	for i := range lcs {
		lcs[i] = make([]int, lb+1)
	}
	for i := la - 1; i >= 0; i-- {
		for j := lb - 1; j >= 0; j-- {
			if an[i].Name == bn[j].Name {
				lcs[i][j] = lcs[i+1][j+1] + 1
			} else if lcs[i+1][j] >= lcs[i][j+1] {
				lcs[i][j] = lcs[i+1][j]
			} else {
				lcs[i][j] = lcs[i][j+1]
			}
		}
	}
	st := append(stack, a.Name)
	i, j := 0, 0
	for i < la && j < lb {
		if an[i].Name == bn[j].Name {
			diff(an[i], bn[j], st, out)
			i++
			j++
		} else if lcs[i+1][j] >= lcs[i][j+1] {
			*out = append(*out, DiffItem{"lost", pathOf(st, an[i].Name), "", "", ""})
			i++
		} else {
			*out = append(*out, DiffItem{"gained", pathOf(st, bn[j].Name), "", "", ""})
			j++
		}
	}
	for ; i < la; i++ {
		*out = append(*out, DiffItem{"lost", pathOf(st, an[i].Name), "", "", ""})
	}
	for ; j < lb; j++ {
		*out = append(*out, DiffItem{"gained", pathOf(st, bn[j].Name), "", "", ""})
	}
}
