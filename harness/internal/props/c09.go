package props

import (
	"bytes"
	"fmt"
	"io"
	"strconv"
	"strings"

	"github.com/zerx-lab/wordZero/pkg/document"

	"verifharness/internal/core"
	"verifharness/internal/deep"
	"verifharness/internal/gen"
	"verifharness/internal/opc"
	"verifharness/internal/rng"
)

// pcell is the observable state of one physical cell.
type pcell struct {
	Text   string
	Span   int
	VM     string // "", restart, continue
	NP     int    // paragraphs
	Nested int
	Any    bool // expectation only: text of this cell is targeted by the edit (not compared)
}

type pview struct {
	Rows [][]pcell
	Grid int // -1 = no grid
}

func cellSpan(c *document.TableCell) int {
	if c.Properties == nil || c.Properties.GridSpan == nil {
		return 1
	}
	n, err := strconv.Atoi(strings.TrimSpace(c.Properties.GridSpan.Val))
	if err != nil || n < 1 {
		return 1
	}
	return n
}

func cellVM(c *document.TableCell) string {
	if c.Properties == nil || c.Properties.VMerge == nil {
		return ""
	}
	if c.Properties.VMerge.Val == "restart" {
		return "restart"
	}
	return "continue"
}

func viewOf(t *document.Table) pview {
	v := pview{Grid: -1}
	if t.Grid != nil {
		v.Grid = len(t.Grid.Cols)
	}
	for i := range t.Rows {
		var row []pcell
		for j := range t.Rows[i].Cells {
			c := &t.Rows[i].Cells[j]
			var sb strings.Builder
			for k, p := range c.Paragraphs {
				for _, r := range p.Runs {
					sb.WriteString(r.Text.Content)
				}
				if k < len(c.Paragraphs)-1 {
					sb.WriteString("\n")
				}
			}
			row = append(row, pcell{Text: sb.String(), Span: cellSpan(c), VM: cellVM(c), NP: len(c.Paragraphs), Nested: len(c.Tables)})
		}
		v.Rows = append(v.Rows, row)
	}
	return v
}

func (v pview) clone() pview {
	out := pview{Grid: v.Grid}
	for _, r := range v.Rows {
		out.Rows = append(out.Rows, append([]pcell{}, r...))
	}
	return out
}

// newRowWidth: cells of an inserted row = grid columns (or the span of the first row when there is no grid), never fewer than the first row's cells.
func (v pview) newRowWidth() int {
	n := 0
	if len(v.Rows) > 0 {
		n = rowSpan(v.Rows[0])
	}
	if v.Grid > 0 {
		n = v.Grid
	}
	if len(v.Rows) > 0 && n < len(v.Rows[0]) {
		n = len(v.Rows[0])
	}
	return n
}

// normalizeVM is the reference rule after row insertion/deletion: a continuation without a matching merged cell above starts a new merge.
func (v *pview) normalizeVM() {
	for i := range v.Rows {
		start := 0
		for j := range v.Rows[i] {
			c := &v.Rows[i][j]
			if c.VM == "continue" {
				ok := false
				if i > 0 {
					s := 0
					for _, u := range v.Rows[i-1] {
						if s == start && u.Span == c.Span && u.VM != "" {
							ok = true
						}
						s += u.Span
					}
				}
				if !ok {
					c.VM = "restart"
				}
			}
			start += c.Span
		}
	}
}

func rowSpan(r []pcell) int {
	n := 0
	for _, c := range r {
		n += c.Span
	}
	return n
}

// invariants returns the names of the invariants the view violates.
func (v pview) invariants() map[string]bool {
	bad := map[string]bool{}
	want := v.Grid
	for i, r := range v.Rows {
		if want < 0 {
			want = rowSpan(v.Rows[0])
		}
		if rowSpan(r) != want {
			bad["row-span-differs-from-grid"] = true
		}
		start := 0
		for _, c := range r {
			if c.NP < 1 {
				bad["cell-without-paragraph"] = true
			}
			if c.VM == "continue" {
				ok := false
				if i > 0 {
					s := 0
					for _, u := range v.Rows[i-1] {
						if s == start && u.Span == c.Span && (u.VM == "restart" || u.VM == "continue") {
							ok = true
						}
						s += u.Span
					}
				}
				if !ok {
					bad["vmerge-continue-without-matching-start"] = true
				}
			}
			start += c.Span
		}
	}
	return bad
}

func (v pview) class() string {
	nested, hm, vm, ragged := false, false, false, false
	for _, r := range v.Rows {
		if len(r) != len(v.Rows[0]) {
			ragged = true
		}
		for _, c := range r {
			if c.Span > 1 {
				hm = true
			}
			if c.VM != "" {
				vm = true
			}
			if c.Nested > 0 {
				nested = true
			}
		}
	}
	switch {
	case v.Grid < 0:
		return "nogrid"
	case hm:
		return "hmerged"
	case ragged || (len(v.Rows) > 0 && v.Grid != len(v.Rows[0])):
		return "ragged"
	case vm:
		return "vmerged"
	case nested:
		return "nested"
	}
	return "rect"
}

func (v pview) String() string {
	var b strings.Builder
	fmt.Fprintf(&b, "grid=%d ", v.Grid)
	for _, r := range v.Rows {
		b.WriteString("[")
		for _, c := range r {
			t := c.Text
			if c.Any {
				t = "*"
			}
			fmt.Fprintf(&b, "%s", t)
			if c.Span > 1 {
				fmt.Fprintf(&b, "/s%d", c.Span)
			}
			if c.VM != "" {
				fmt.Fprintf(&b, "/%s", c.VM[:1])
			}
			b.WriteString(" ")
		}
		b.WriteString("] ")
	}
	return b.String()
}

// diffView compares expectation e with actual a; returns "" if equal (ignoring Any cells' text).
func diffView(e, a pview, structureOnly bool) string {
	if len(e.Rows) != len(a.Rows) {
		return fmt.Sprintf("row count %d, expected %d", len(a.Rows), len(e.Rows))
	}
	for i := range e.Rows {
		if len(e.Rows[i]) != len(a.Rows[i]) {
			return fmt.Sprintf("row %d has %d cells, expected %d", i, len(a.Rows[i]), len(e.Rows[i]))
		}
		for j := range e.Rows[i] {
			ec, ac := e.Rows[i][j], a.Rows[i][j]
			if !ec.Any && ec.Text != ac.Text {
				return fmt.Sprintf("cell (%d,%d) holds %q, expected %q", i, j, ac.Text, ec.Text)
			}
			if !structureOnly && (ec.Span != ac.Span || ec.VM != ac.VM) {
				return fmt.Sprintf("cell (%d,%d) span/vmerge %d/%q, expected %d/%q", i, j, ac.Span, ac.VM, ec.Span, ec.VM)
			}
		}
	}
	return ""
}

// raggedTableDoc builds (with the harness' own writer) a package with a table without tblGrid and/or ragged rows, and opens it.
func raggedTable(r *rng.R, ids func() string) *document.Table {
	var b strings.Builder
	b.WriteString("<w:tbl><w:tblPr><w:tblW w:w=\"5000\" w:type=\"dxa\"/></w:tblPr>")
	rows := r.Range(1, 5)
	cols := r.Range(1, 5)
	if r.Bool() {
		b.WriteString("<w:tblGrid>")
		for j := 0; j < cols; j++ {
			b.WriteString("<w:gridCol w:w=\"1000\"/>")
		}
		b.WriteString("</w:tblGrid>")
	}
	// vertical merges in the form Word writes them: the first cell says restart, the continuation cells carry a bare <w:vMerge/>
	// (a missing val means continue)
	vm := map[[2]int]string{}
	if rows >= 2 && r.Chance(2, 5) {
		for k := r.Range(1, 2); k > 0; k-- {
			j := r.Intn(cols)
			a := r.Intn(rows - 1)
			e := r.Range(a+1, rows-1)
			if _, taken := vm[[2]int{a, j}]; taken {
				continue
			}
			form := "<w:vMerge/>"
			if r.Chance(1, 4) {
				form = "<w:vMerge w:val=\"continue\"/>"
			}
			vm[[2]int{a, j}] = "<w:vMerge w:val=\"restart\"/>"
			for q := a + 1; q <= e; q++ {
				vm[[2]int{q, j}] = form
			}
		}
	}
	for i := 0; i < rows; i++ {
		b.WriteString("<w:tr>")
		limit := cols // grid columns this row covers (fewer or one more in ragged tables)
		if r.Chance(1, 3) && len(vm) == 0 {
			limit = r.Range(1, cols+1)
		}
		// the row is a partition of the grid columns into cells; a cell that takes part in a vertical merge occupies exactly its grid
		// column in every row of the merge, the cells left and right of it may be merged horizontally in any way (so the physical
		// index of the merged cell differs from row to row)
		for g := 0; g < limit; {
			span := 1
			mark, forced := vm[[2]int{i, g}]
			if !forced {
				max := 0
				for q := g; q < limit; q++ {
					if _, f := vm[[2]int{i, q}]; f {
						break
					}
					max++
				}
				if r.Chance(1, 4) && max > 1 {
					span = r.Range(2, max)
				}
			}
			b.WriteString("<w:tc><w:tcPr><w:tcW w:w=\"1000\" w:type=\"dxa\"/>")
			if span > 1 {
				fmt.Fprintf(&b, "<w:gridSpan w:val=\"%d\"/>", span)
			}
			b.WriteString(mark)
			b.WriteString("</w:tcPr><w:p><w:r><w:t>" + ids() + "</w:t></w:r></w:p>")
			if r.Chance(1, 10) {
				b.WriteString("<w:tbl><w:tr><w:tc><w:p><w:r><w:t>n</w:t></w:r></w:p></w:tc></w:tr></w:tbl><w:p/>")
			}
			b.WriteString("</w:tc>")
			g += span
		}
		b.WriteString("</w:tr>")
	}
	b.WriteString("</w:tbl>")
	raw := gen.MinimalPackage(func(m map[string]string) {
		m["word/document.xml"] = strings.Replace(m["word/document.xml"], "<w:body>", "<w:body>"+b.String(), 1)
	})
	d, err := document.OpenFromMemory(io.NopCloser(bytes.NewReader(raw)))
	if err != nil || d == nil || d.Body == nil {
		return nil
	}
	ts := d.Body.GetTables()
	if len(ts) == 0 {
		return nil
	}
	return ts[0]
}

func c09Case(c *core.Ctx) *core.Result {
	res := &core.Result{}
	r := caseRng(c)
	document.VerifResetGlobals()
	serial := 0
	id := func() string { serial++; return fmt.Sprintf("k%d", serial) }
	d := document.New()
	var t *document.Table
	origin := "created"
	switch r.Intn(5) {
	case 0:
		t = raggedTable(r, id)
		origin = "opened-harness-built"
	case 1: // created, merged, saved and reopened
		rows, cols := r.Range(2, 6), r.Range(2, 6)
		data := make([][]string, rows)
		for i := range data {
			data[i] = make([]string, cols)
			for j := range data[i] {
				data[i][j] = id()
			}
		}
		t0, err := d.AddTable(&document.TableConfig{Rows: rows, Cols: cols, Width: 6000, Data: data})
		if err == nil && t0 != nil {
			if r.Bool() {
				t0.MergeCellsHorizontal(r.Intn(rows), 0, r.Range(1, cols-1))
			}
			if r.Bool() {
				t0.MergeCellsVertical(0, r.Range(1, rows-1), cols-1)
			}
			if b, err := d.ToBytes(); err == nil {
				if d2, err := document.OpenFromMemory(io.NopCloser(bytes.NewReader(b))); err == nil && d2 != nil && d2.Body != nil && len(d2.Body.GetTables()) > 0 {
					t = d2.Body.GetTables()[0]
					d = d2
					origin = "reopened"
				}
			}
		}
	}
	if t == nil {
		rows, cols := r.Range(1, 8), r.Range(1, 8)
		data := make([][]string, rows)
		for i := range data {
			data[i] = make([]string, cols)
			for j := range data[i] {
				data[i][j] = id()
			}
		}
		var err error
		if r.Bool() {
			t, err = d.CreateTable(&document.TableConfig{Rows: rows, Cols: cols, Width: 8000, Data: data})
		} else {
			t, err = d.AddTable(&document.TableConfig{Rows: rows, Cols: cols, Width: 8000, Data: data})
		}
		if err != nil || t == nil {
			res.Inconcl = "could not create the start table"
			return res
		}
		origin = "created"
	}
	var log []string
	kinds := map[string]bool{}
	okEdits := 0
	nOps := r.Range(3, tierN(c.Tier, 30, 80))
	// index generator: inside, at and beyond the bounds, negative
	scenario := c.Case%3 == 1 && origin == "created"
	idx := func(n int) int {
		if scenario && n > 0 && r.Chance(9, 10) {
			return r.Intn(n)
		}
		switch r.Intn(10) {
		case 0:
			return -1
		case 1:
			return n
		case 2:
			return n + 1
		case 3:
			return n - 1
		case 4:
			return 0
		}
		if n <= 0 {
			return 0
		}
		return r.Intn(n)
	}
	strs := func(n int) []string {
		if r.Chance(1, 4) {
			return nil
		}
		if n < 0 {
			n = 0
		}
		out := make([]string, n)
		for i := range out {
			out[i] = id()
		}
		return out
	}
	for step := 0; step < nOps && len(res.Findings) == 0; step++ {
		before := viewOf(t)
		beforeDump := deep.Dump(t)
		beforeBad := before.invariants()
		cls := before.class()
		R := len(before.Rows)
		C0 := 0
		if R > 0 {
			C0 = len(before.Rows[0])
		}
		var op string
		var err error
		var exp pview
		exact := false      // exp is a full prediction
		structural := false // op changes structure (invariants are checked after success)
		var call func()
		opk := r.Intn(20)
		if scenario {
			// merge-heavy history: merges of all three kinds with arguments inside the table, and row edits aimed at the rows where
			// vertical merges start (stacked regions of different width, deleted start rows, rows inserted into a region)
			opk = []int{13, 14, 15, 16, 16, 16, 3, 3, 4, 0, 17, 2}[r.Intn(12)]
		}
		switch opk {
		case 0, 1:
			pos := idx(R + 1)
			data := strs(r.Range(0, C0+1))
			op = "InsertRow"
			structural = true
			call = func() { err = t.InsertRow(pos, data) }
			if pos >= 0 && pos <= R && R > 0 && len(data) <= C0 {
				exp = before.clone()
				nr := make([]pcell, before.newRowWidth())
				for j := range nr {
					nr[j] = pcell{Span: 1, NP: 1}
					if j < len(data) {
						nr[j].Text = data[j]
					}
				}
				exp.Rows = append(exp.Rows[:pos:pos], append([][]pcell{nr}, exp.Rows[pos:]...)...)
				exp.normalizeVM()
				exact = true
			}
		case 2:
			data := strs(r.Range(0, C0+1))
			op = "AppendRow"
			structural = true
			call = func() { err = t.AppendRow(data) }
			if R > 0 && len(data) <= C0 {
				exp = before.clone()
				nr := make([]pcell, before.newRowWidth())
				for j := range nr {
					nr[j] = pcell{Span: 1, NP: 1}
					if j < len(data) {
						nr[j].Text = data[j]
					}
				}
				exp.Rows = append(exp.Rows, nr)
				exact = true
			}
		case 3:
			i := idx(R)
			if scenario && r.Bool() {
				// aim at a row in which a vertical merge starts
				var starts []int
				for ri := range before.Rows {
					for _, pc := range before.Rows[ri] {
						if pc.VM == "restart" {
							starts = append(starts, ri)
							break
						}
					}
				}
				if len(starts) > 0 {
					i = starts[r.Intn(len(starts))]
				}
			}
			op = "DeleteRow"
			structural = true
			call = func() { err = t.DeleteRow(i) }
			if i >= 0 && i < R && R > 1 {
				exp = before.clone()
				exp.Rows = append(exp.Rows[:i:i], exp.Rows[i+1:]...)
				exp.normalizeVM()
				exact = true
			}
		case 4:
			a, b := idx(R), idx(R)
			op = "DeleteRows"
			structural = true
			call = func() { err = t.DeleteRows(a, b) }
			if a >= 0 && b < R && a <= b && R-(b-a+1) >= 1 {
				exp = before.clone()
				exp.Rows = append(exp.Rows[:a:a], exp.Rows[b+1:]...)
				exp.normalizeVM()
				exact = true
			}
		case 5, 6:
			pos := idx(C0 + 1)
			data := strs(r.Range(0, R+1))
			op = "InsertColumn"
			if r.Chance(1, 3) {
				op = "AppendColumn"
				pos = C0
			}
			structural = true
			if op == "AppendColumn" {
				call = func() { err = t.AppendColumn(data, 1200) }
			} else {
				call = func() { err = t.InsertColumn(pos, data, 1200) }
			}
			if cls == "rect" && pos >= 0 && pos <= C0 && len(data) <= R && R > 0 {
				exp = before.clone()
				for i := range exp.Rows {
					nc := pcell{Span: 1, NP: 1}
					if i < len(data) {
						nc.Text = data[i]
					}
					exp.Rows[i] = append(exp.Rows[i][:pos:pos], append([]pcell{nc}, exp.Rows[i][pos:]...)...)
				}
				exp.Grid++
				exact = true
			}
		case 7:
			j := idx(C0)
			op = "DeleteColumn"
			structural = true
			call = func() { err = t.DeleteColumn(j) }
			if cls == "rect" && j >= 0 && j < C0 && C0 > 1 {
				exp = before.clone()
				for i := range exp.Rows {
					exp.Rows[i] = append(exp.Rows[i][:j:j], exp.Rows[i][j+1:]...)
				}
				exp.Grid--
				exact = true
			}
		case 8:
			a, b := idx(C0), idx(C0)
			op = "DeleteColumns"
			structural = true
			call = func() { err = t.DeleteColumns(a, b) }
			if cls == "rect" && a >= 0 && b < C0 && a <= b && C0-(b-a+1) >= 1 {
				exp = before.clone()
				for i := range exp.Rows {
					exp.Rows[i] = append(exp.Rows[i][:a:a], exp.Rows[i][b+1:]...)
				}
				exp.Grid -= b - a + 1
				exact = true
			}
		case 9, 10:
			i := idx(R)
			n := 0
			if i >= 0 && i < R {
				n = len(before.Rows[i])
			}
			j := idx(n)
			txt := id()
			which := r.Intn(5)
			op = []string{"SetCellText", "SetCellFormattedText", "AddCellParagraph", "AddCellFormattedText", "ClearCellContent"}[which]
			call = func() {
				switch which {
				case 0:
					err = t.SetCellText(i, j, txt)
				case 1:
					err = t.SetCellFormattedText(i, j, txt, &document.TextFormat{Bold: true})
				case 2:
					_, err = t.AddCellParagraph(i, j, txt)
				case 3:
					err = t.AddCellFormattedText(i, j, txt, &document.TextFormat{Italic: true})
				case 4:
					err = t.ClearCellContent(i, j)
				}
			}
			if i >= 0 && i < R && j >= 0 && j < n {
				exp = before.clone()
				exp.Rows[i][j].Any = true
				exact = true
			}
		case 11:
			op = "ClearTable"
			call = func() { t.ClearTable() }
			exp = before.clone()
			for i := range exp.Rows {
				for j := range exp.Rows[i] {
					exp.Rows[i][j].Any = true
				}
			}
			exact = true
		case 12, 13:
			i := idx(R)
			n := 0
			if i >= 0 && i < R {
				n = len(before.Rows[i])
			}
			a, b := idx(n), idx(n)
			op = "MergeCellsHorizontal"
			structural = true
			call = func() { err = t.MergeCellsHorizontal(i, a, b) }
			hvalid := i >= 0 && i < R && a >= 0 && b < n && a < b
			if hvalid {
				for k := a; k <= b; k++ {
					if before.Rows[i][k].VM != "" { // cells of a vertical merge cannot be merged away
						hvalid = false
					}
				}
			}
			if hvalid {
				exp = before.clone()
				sum := 0
				for k := a; k <= b; k++ {
					sum += exp.Rows[i][k].Span
				}
				exp.Rows[i][a].Span = sum
				exp.Rows[i] = append(exp.Rows[i][:a+1:a+1], exp.Rows[i][b+1:]...)
				exact = true
			}
		case 14, 15:
			a, b := idx(R), idx(R)
			j := idx(C0)
			op = "MergeCellsVertical"
			structural = true
			call = func() { err = t.MergeCellsVertical(a, b, j) }
			valid := a >= 0 && b < R && a < b && j >= 0
			if valid {
				for k := a; k <= b; k++ {
					if j >= len(before.Rows[k]) {
						valid = false
					}
				}
			}
			if valid {
				gs := func(row int) int {
					s := 0
					for q := 0; q < j; q++ {
						s += before.Rows[row][q].Span
					}
					return s
				}
				for k := a + 1; k <= b; k++ {
					if gs(k) != gs(a) || before.Rows[k][j].Span != before.Rows[a][j].Span {
						valid = false
					}
				}
			}
			if valid {
				exp = before.clone()
				exp.Rows[a][j].VM = "restart"
				for k := a + 1; k <= b; k++ {
					exp.Rows[k][j].VM = "continue"
					exp.Rows[k][j].Any = true
				}
				exact = true
			}
		case 16:
			a, b := idx(R), idx(R)
			ca, cb := idx(C0), idx(C0)
			op = "MergeCellsRange"
			structural = true
			call = func() { err = t.MergeCellsRange(a, b, ca, cb) }
			// semantics through already merged cells are not fixed by the statement: invariants + error atomicity only
		case 17:
			i := idx(R)
			n := 0
			if i >= 0 && i < R {
				n = len(before.Rows[i])
			}
			j := idx(n)
			if r.Bool() {
				// aim at a merged cell (start of a vertical merge or a horizontally merged cell) when the table has one
				var hits [][2]int
				for ri := range before.Rows {
					for ci, pc := range before.Rows[ri] {
						if pc.VM == "restart" || pc.Span > 1 {
							hits = append(hits, [2]int{ri, ci})
						}
					}
				}
				if len(hits) > 0 {
					h := hits[r.Intn(len(hits))]
					i, j = h[0], h[1]
				}
			}
			op = "UnmergeCells"
			structural = true
			call = func() { err = t.UnmergeCells(i, j) }
		case 18:
			i := idx(R)
			n := 0
			if i >= 0 && i < R {
				n = len(before.Rows[i])
			}
			j := idx(n)
			op = "AddNestedTable"
			call = func() {
				_, err = t.AddNestedTable(i, j, &document.TableConfig{Rows: r.Range(1, 2), Cols: r.Range(1, 2), Width: 1000})
			}
			if i >= 0 && i < R && j >= 0 && j < n {
				exp = before.clone()
				exp.Rows[i][j].Any = true
				exact = true
			}
		case 19:
			op = "CopyTable"
			var cp *document.Table
			call = func() { cp = t.CopyTable() }
			if cg := core.Catch(call); cg != nil {
				res.Add("CopyTable/"+cls+"/"+cg.Key(), "CopyTable panicked: "+cg.Msg, cg.Stack)
				break
			}
			res.Count("copies_checked", 1)
			if cp == nil {
				res.Add("CopyTable/"+cls+"/nil", "CopyTable returned nil")
				break
			}
			if deep.Dump(t) != beforeDump {
				res.Add("CopyTable/"+cls+"/modifies-original", "CopyTable changed the original table")
			}
			if al := deep.Aliases(t, cp); len(al) > 0 {
				res.Add("CopyTable/shares-mutable-state", fmt.Sprintf("the copy shares %d heap objects with the original: %s", len(al), strings.Join(firstStr(al, 6), ", ")))
			}
			if dv := diffView(viewOf(t), viewOf(cp), false); dv != "" {
				res.Add("CopyTable/"+cls+"/copy-differs", "copy differs from the original: "+dv)
			} else if before.class() == "nested" {
				for i := range before.Rows {
					for j := range before.Rows[i] {
						if before.Rows[i][j].Nested != viewOf(cp).Rows[i][j].Nested {
							res.Add("CopyTable/nested/nested-tables-dropped", fmt.Sprintf("cell (%d,%d) has %d nested tables, the copy has %d", i, j, before.Rows[i][j].Nested, viewOf(cp).Rows[i][j].Nested))
						}
					}
				}
			}
			log = append(log, op)
			kinds[op] = true
			continue
		}
		if call == nil {
			continue
		}
		log = append(log, op)
		kinds[op] = true
		res.Count("calls", 1)
		cg := core.Catch(call)
		note := fmt.Sprintf("origin=%s before: %s ; ops: %s", origin, before.String(), strings.Join(tail(log, 15), " "))
		if cg != nil {
			res.Add(op+"/"+cls+"/"+cg.Key(), fmt.Sprintf("%s panicked on a %s table: %s", op, cls, cg.Msg), note, cg.Stack)
			break
		}
		after := viewOf(t)
		if err != nil {
			res.Count("calls_rejected", 1)
			if deep.Dump(t) != beforeDump {
				res.Add(op+"/"+cls+"/error-but-table-changed", fmt.Sprintf("%s returned an error (%v) but the table changed: %s", op, err, after.String()), note)
			}
			if exp.Rows != nil && exact {
				res.Add(op+"/"+cls+"/valid-call-rejected", fmt.Sprintf("%s was rejected (%v) although the arguments are within bounds", op, err), note)
			}
			continue
		}
		res.Count("calls_succeeded", 1)
		okEdits++
		if exp.Rows == nil && op != "MergeCellsRange" && op != "UnmergeCells" && !(strings.Contains(op, "Column") && cls != "rect") {
			res.Add(op+"/"+cls+"/invalid-call-accepted", fmt.Sprintf("%s succeeded although the arguments are out of range; table now: %s", op, after.String()), note)
			continue
		}
		if exp.Rows != nil {
			if exact {
				so := false
				if dv := diffView(exp, after, so); dv != "" {
					res.Add(op+"/"+cls+"/result-differs-from-model", fmt.Sprintf("%s: %s ; table now: %s ; expected: %s", op, dv, after.String(), exp.String()), note)
				}
				if exp.Grid != after.Grid && exp.Grid >= 0 {
					res.Add(op+"/"+cls+"/grid-column-count", fmt.Sprintf("%s: grid has %d columns, expected %d", op, after.Grid, exp.Grid), note)
				}
			} else {
				// rows other than the new one are where they were
				for i := range exp.Rows {
					if exp.Rows[i] == nil || i >= len(after.Rows) {
						continue
					}
					if dv := diffView(pview{Rows: [][]pcell{exp.Rows[i]}}, pview{Rows: [][]pcell{after.Rows[i]}}, false); dv != "" {
						res.Add(op+"/"+cls+"/untouched-row-changed", fmt.Sprintf("%s: row %d: %s", op, i, dv), note)
					}
				}
				if len(exp.Rows) != len(after.Rows) {
					res.Add(op+"/"+cls+"/row-count", fmt.Sprintf("%s: %d rows, expected %d", op, len(after.Rows), len(exp.Rows)), note)
				}
			}
		}
		if structural {
			for name := range after.invariants() {
				if !beforeBad[name] {
					res.Add(op+"/"+cls+"/breaks:"+name, fmt.Sprintf("%s succeeded and left a table violating %q: %s", op, name, after.String()), note)
				}
			}
			res.Count("invariant_checks", 1)
		}
		// conservation: ids of cells that were not targeted are still there exactly once, in order
		if exp.Rows != nil && exact {
			var want, got []string
			for _, row := range exp.Rows {
				for _, cl := range row {
					if !cl.Any && strings.HasPrefix(cl.Text, "k") {
						want = append(want, cl.Text)
					}
				}
			}
			wantSet := map[string]bool{}
			for _, w := range want {
				wantSet[w] = true
			}
			for _, row := range after.Rows {
				for _, cl := range row {
					if wantSet[cl.Text] {
						got = append(got, cl.Text)
					}
				}
			}
			if strings.Join(want, ",") != strings.Join(got, ",") {
				res.Add(op+"/"+cls+"/untouched-cells-not-conserved", fmt.Sprintf("%s: untouched cell ids %v, found %v", op, want, got), note)
			}
		}
		// readers agree with the structure and never panic
		if cg := core.Catch(func() { c09Readers(res, t, after, op, after.class()) }); cg != nil {
			res.Add("readers-after-"+op+"/"+cls+"/"+cg.Key(), "a reading accessor panicked: "+cg.Msg, note, cg.Stack)
		}
		// the w:tbl of a saved document is the table the calls produced (read by the independent reader)
		if len(res.Findings) == 0 && (step == nOps-1 || r.Chance(1, 8)) {
			c09Saved(res, t, op, note)
		}
	}
	res.Nontrivial = okEdits >= 3 && len(kinds) >= 2
	res.Sig = origin + ":" + strings.Join(log, ",")
	res.Sample = map[string]interface{}{"case": c.Case, "origin": origin, "ops": tail(log, 30), "final": viewOf(t).String()}
	return res
}

// c09Saved serialises a document holding the table and compares the w:tbl found in the main part - rows, cells, w:gridSpan,
// w:vMerge, the text of the cell's own paragraphs - with the table in memory.
func c09Saved(res *core.Result, t *document.Table, op, note string) {
	mem := viewOf(t)
	sd := document.New()
	sd.Body.AddElement(t)
	var raw []byte
	var err error
	if cg := core.Catch(func() { raw, err = sd.ToBytes() }); cg != nil {
		res.Add("saved/"+mem.class()+"/"+cg.Key(), "saving a document with the table panicked: "+cg.Msg, note, cg.Stack)
		return
	}
	if err != nil {
		return
	}
	root, probs := opc.Read(raw).Tree("word/document.xml")
	if root == nil || len(probs) > 0 {
		res.Add("saved/"+mem.class()+"/main-part-unreadable", "the main part of the saved document cannot be read", note)
		return
	}
	body := root.Child(opc.NsW, "body")
	if body == nil || body.Child(opc.NsW, "tbl") == nil {
		res.Add("saved/"+mem.class()+"/table-missing", "the saved main part has no w:tbl", note)
		return
	}
	sv := pview{Grid: mem.Grid}
	for _, tr := range body.Child(opc.NsW, "tbl").ChildrenOf(opc.NsW, "tr") {
		var row []pcell
		for _, tc := range tr.ChildrenOf(opc.NsW, "tc") {
			pc := pcell{Span: 1}
			if pr := tc.Child(opc.NsW, "tcPr"); pr != nil {
				if gs := pr.Child(opc.NsW, "gridSpan"); gs != nil {
					if n, e := strconv.Atoi(strings.TrimSpace(gs.AttrW("val"))); e == nil && n >= 1 {
						pc.Span = n
					}
				}
				if vm := pr.Child(opc.NsW, "vMerge"); vm != nil {
					pc.VM = "continue"
					if vm.AttrW("val") == "restart" {
						pc.VM = "restart"
					}
				}
			}
			var texts []string
			for _, p := range tc.ChildrenOf(opc.NsW, "p") {
				var sb strings.Builder
				for _, tx := range p.Find(opc.NsW, "t") {
					sb.WriteString(tx.Text)
				}
				texts = append(texts, sb.String())
			}
			pc.Text = strings.Join(texts, "\n")
			pc.NP = len(texts)
			row = append(row, pc)
		}
		sv.Rows = append(sv.Rows, row)
	}
	res.Count("saved_tables_compared_with_memory", 1)
	if df := diffView(mem, sv, false); df != "" {
		res.Add("saved/"+mem.class()+"/table-differs-from-memory", fmt.Sprintf("after %s the saved w:tbl differs from the table in memory: %s ; memory: %s ; saved: %s", op, df, mem.String(), sv.String()), note)
	}
}

func aliasClass(al []string) string {
	set := map[string]bool{}
	for _, a := range al {
		// keep the last field name
		parts := strings.Split(strings.ReplaceAll(a, "[]", ""), ".")
		set[parts[len(parts)-1]] = true
	}
	var names []string
	for n := range set {
		names = append(names, n)
	}
	sortStrings(names)
	if len(names) > 4 {
		names = names[:4]
	}
	return strings.Join(names, "+")
}

func firstStr(x []string, n int) []string {
	if len(x) > n {
		return x[:n]
	}
	return x
}

func c09Readers(res *core.Result, t *document.Table, v pview, op, cls string) {
	if t.GetRowCount() != len(v.Rows) {
		res.Add("GetRowCount/"+cls+"/disagrees", fmt.Sprintf("GetRowCount=%d, rows=%d", t.GetRowCount(), len(v.Rows)))
	}
	if len(v.Rows) > 0 && t.GetColumnCount() != len(v.Rows[0]) {
		res.Add("GetColumnCount/"+cls+"/disagrees", fmt.Sprintf("GetColumnCount=%d, first row has %d cells", t.GetColumnCount(), len(v.Rows[0])))
	}
	for i := range v.Rows {
		for j := range v.Rows[i] {
			txt, err := t.GetCellText(i, j)
			if err != nil || txt != v.Rows[i][j].Text {
				res.Add("GetCellText/"+cls+"/disagrees", fmt.Sprintf("GetCellText(%d,%d)=%q,%v ; cell holds %q", i, j, txt, err, v.Rows[i][j].Text))
			}
		}
	}
	t.GetCellText(-1, 0)
	t.GetCellText(len(v.Rows), 0)
	it := t.NewCellIterator()
	for k := 0; it.HasNext() && k < 400; k++ {
		if _, err := it.Next(); err != nil {
			break
		}
	}
	it.Reset()
	it.Current()
	it.Total()
	it.Progress()
	n := 0
	ferr := t.ForEach(func(i, j int, cell *document.TableCell, text string) error { n++; return nil })
	if ferr == nil && cls == "rect" {
		want := 0
		for _, r := range v.Rows {
			want += len(r)
		}
		if n != want {
			res.Add("ForEach/rect/visit-count", fmt.Sprintf("ForEach visited %d cells of %d", n, want))
		}
	}
	t.ForEachInRow(0, func(int, *document.TableCell, string) error { return nil })
	t.ForEachInColumn(0, func(int, *document.TableCell, string) error { return nil })
	t.GetCellRange(0, 0, len(v.Rows)-1, t.GetColumnCount()-1)
	t.GetCellRange(-1, 0, len(v.Rows), 99)
	t.FindCellsByText("k1", true)
	t.IsCellMerged(0, 0)
	t.GetMergedCellInfo(0, 0)
	res.Count("reader_sweeps", 1)
}

func sortStrings(x []string) {
	for i := 1; i < len(x); i++ {
		for j := i; j > 0 && x[j] < x[j-1]; j-- {
			x[j], x[j-1] = x[j-1], x[j]
		}
	}
}

func init() {
	core.Register(&core.Check{
		ID:    "C09",
		Level: "exploration",
		Rule: "operation scripts (InsertRow/AppendRow/DeleteRow(s)/InsertColumn/AppendColumn/DeleteColumn(s)/SetCellText/SetCellFormattedText/AddCellParagraph/AddCellFormattedText/ClearCellContent/ClearTable/MergeCellsHorizontal/Vertical/Range/UnmergeCells/AddNestedTable/CopyTable) over tables 1x1..8x8, " +
			"with indices inside, at, beyond the bounds, negative and inverted, also on reopened tables and harness-built opened tables without grid / with ragged rows / spans / nested tables; every cell text is a unique id. After the last call and at random points a document holding the table is serialised and the w:tbl of its main part (rows, cells, w:gridSpan, w:vMerge, cell text; independent reader) must be the table in memory. After EVERY call: panic => violation; error => deep snapshot unchanged; success => " +
			"result equals the physical rows-by-columns reference (exact for regular tables; for column edits through merges only invariants), invariants (row span = grid columns, >=1 paragraph per cell, vMerge continuation under a matching start) not newly broken, untouched cell ids conserved in order, readers agree; CopyTable: equal, no shared heap objects, original unchanged. " +
			"Non-trivial: >=3 successful edits of >=2 kinds; distinct = origin + call sequence.",
		Cases:         func(t string) int { return tierN(t, 10000, 80000) },
		Run:           c09Case,
		Assume:        []string{"indices are physical cell indices, as in the library's API", "the text written into a targeted cell is not compared, only that all other cells are where the reference says"},
		CaseTimeoutS:  60,
		MinNontrivial: 200,
	})
}
