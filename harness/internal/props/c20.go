package props

import (
	"fmt"
	"regexp"
	"strings"

	"github.com/zerx-lab/wordZero/pkg/document"
	"github.com/zerx-lab/wordZero/pkg/markdown"

	"verifharness/internal/core"
	"verifharness/internal/rng"
)

// xTok is one run text of the generated document: a unique token, optionally with Markdown metacharacters around it.
type xTok struct {
	tok                        string
	text                       string
	bold, italic, strike, code bool
	block                      string // heading<n> | para | quote | code | list | cell
	meta                       bool   // the text contains Markdown metacharacters
	tight                      bool   // no blank between this run and a neighbour
}

var c20Meta = []string{"*", "_", "`", "|", "#", ">", "[x]", "~~", "1.", "a*b*c", "_u_", "<t>", "\\", "- "}

func c20Doc(r *rng.R, allowMeta bool, boundaries map[string]int) (*document.Document, []xTok, []string) {
	d := document.New()
	var toks []xTok
	var blocks []string
	n := 0
	mk := func(block string, formatted bool) (xTok, *document.TextFormat) {
		n++
		t := xTok{tok: fmt.Sprintf("w%dx", n), block: block}
		t.text = t.tok
		if allowMeta && r.Chance(1, 4) {
			m := c20Meta[r.Intn(len(c20Meta))]
			t.meta = true
			switch r.Intn(3) {
			case 0:
				t.text = m + " " + t.tok
			case 1:
				t.text = t.tok + " " + m
			default:
				t.text = t.tok + m + "z"
			}
		}
		var f *document.TextFormat
		if formatted {
			switch r.Intn(7) {
			case 0:
				t.bold = true
			case 1:
				t.italic = true
			case 2:
				t.bold, t.italic = true, true
			case 3:
				t.strike = true
			case 4:
				t.code = true
			case 5:
				t.bold, t.strike = true, true
			}
			if t.bold || t.italic || t.strike || t.code {
				f = &document.TextFormat{Bold: t.bold, Italic: t.italic, Strike: t.strike}
				if t.code {
					f.FontFamily = "Consolas"
				}
			}
		}
		return t, f
	}
	nb := r.Range(2, 9)
	for b := 0; b < nb; b++ {
		switch k := r.Intn(12); {
		case k < 2:
			lvl := r.Range(1, 6)
			t, _ := mk(fmt.Sprintf("heading%d", lvl), false)
			d.AddHeadingParagraph(t.text, lvl)
			toks = append(toks, t)
			blocks = append(blocks, t.block)
		case k < 6:
			var p *document.Paragraph
			for i, m := 0, r.Range(1, 4); i < m; i++ {
				t, f := mk("para", true)
				txt := t.text
				if i > 0 {
					// run boundaries: the blank between two words may sit at the start of the next run, at the end of the previous one, at
					// both, or in a run of its own; an empty run may sit in between (what a picture or a field leaves in the text)
					last := &p.Runs[len(p.Runs)-1]
					switch bk := r.Intn(10); { // TODO tight (Intn(11)) once the exporter handles runs that touch
					case bk == 10:
						// no blank at all: two differently formatted runs inside one word
						boundaries["tight"]++
						t.tight = true
						toks[len(toks)-1].tight = true
					case bk < 5:
						txt = " " + txt
					case bk == 5:
						last.Text.Content += " "
						boundaries["trailing"]++
					case bk == 6:
						last.Text.Content += " "
						txt = " " + txt
						boundaries["trailing+leading"]++
					case bk == 7:
						p.AddFormattedText(" ", nil)
						boundaries["blank-run"]++
					case bk == 8:
						last.Text.Content += " "
						p.AddFormattedText("", nil)
						txt = " " + txt
						boundaries["trailing+empty-run+leading"]++
					default:
						last.Text.Content += " "
						p.AddFormattedText(" ", nil)
						txt = " " + txt
						boundaries["trailing+blank-run+leading"]++
					}
				}
				if p == nil {
					p = d.AddFormattedParagraph(txt, f)
				} else {
					p.AddFormattedText(txt, f)
				}
				toks = append(toks, t)
			}
			blocks = append(blocks, "para")
		case k == 6:
			t, _ := mk("quote", false)
			d.AddParagraph(t.text).SetStyle("Quote")
			toks = append(toks, t)
			blocks = append(blocks, "quote")
		case k == 7:
			for i, m := 0, r.Range(1, 3); i < m; i++ {
				t, _ := mk("code", false)
				d.AddParagraph(strings.Repeat(" ", r.Intn(3)*2) + t.text).SetStyle("CodeBlock")
				toks = append(toks, t)
			}
			blocks = append(blocks, "code")
		case k == 8:
			for i, m := 0, r.Range(1, 3); i < m; i++ {
				t, _ := mk("list", false)
				d.AddBulletList(t.text, 0, document.BulletTypeDot)
				toks = append(toks, t)
			}
			blocks = append(blocks, "list")
		case k == 9:
			rows, cols := r.Range(1, 3), r.Range(1, 3)
			data := make([][]string, rows)
			for i := range data {
				for j := 0; j < cols; j++ {
					t, _ := mk("cell", false)
					data[i] = append(data[i], t.text)
					toks = append(toks, t)
				}
			}
			d.AddTable(&document.TableConfig{Rows: rows, Cols: cols, Width: 6000, Data: data})
			blocks = append(blocks, "table")
		case k == 10:
			d.AddParagraph("")
		default:
			t, f := mk("para", true)
			d.AddFormattedParagraph(t.text, f)
			toks = append(toks, t)
			blocks = append(blocks, "para")
		}
	}
	return d, toks, blocks
}

var c20TokRe = regexp.MustCompile(`w\d+x`)

// blockOf classifies the paragraph/table a token sits in (for the converted-back document).
func c20Blocks(d *document.Document) map[string]string {
	out := map[string]string{}
	for _, el := range d.Body.Elements {
		switch v := el.(type) {
		case *document.Paragraph:
			style := ""
			if v.Properties != nil && v.Properties.ParagraphStyle != nil {
				style = v.Properties.ParagraphStyle.Val
			}
			kind := "para"
			var sb strings.Builder
			for _, run := range v.Runs {
				sb.WriteString(run.Text.Content)
			}
			txt := sb.String()
			switch {
			case strings.HasPrefix(style, "Heading"):
				kind = "heading" + strings.TrimPrefix(style, "Heading")
			case style == "Quote":
				kind = "quote"
			case style == "CodeBlock":
				kind = "code"
			case strings.HasPrefix(strings.TrimSpace(txt), "• ") || (v.Properties != nil && v.Properties.NumberingProperties != nil):
				kind = "list"
			}
			for _, m := range c20TokRe.FindAllString(txt, -1) {
				out[m] = kind
			}
		case *document.Table:
			for i := range v.Rows {
				for j := range v.Rows[i].Cells {
					for _, p := range v.Rows[i].Cells[j].Paragraphs {
						for _, run := range p.Runs {
							for _, m := range c20TokRe.FindAllString(run.Text.Content, -1) {
								out[m] = "cell"
							}
						}
					}
				}
			}
		}
	}
	return out
}

func c20Case(c *core.Ctx) *core.Result {
	res := &core.Result{}
	r := caseRng(c)
	document.VerifResetGlobals()
	allowMeta := c.Case%2 == 1
	bounds := map[string]int{}
	d, toks, blocks := c20Doc(r, allowMeta, bounds)
	for k, v := range bounds {
		res.Count("run-boundary:"+k, int64(v))
	}
	opts := markdown.DefaultExportOptions()
	opts.UseGFMTables = r.Chance(3, 4)
	opts.UseSetext = r.Bool()
	opts.BulletListMarker = []string{"-", "*", "+"}[r.Intn(3)]
	opts.EmphasisMarker = []string{"*", "_"}[r.Intn(2)]
	opts.WrapLongLines = r.Chance(1, 3)
	opts.MaxLineLength = []int{10, 20, 40, 80}[r.Intn(4)]
	optNote := fmt.Sprintf("options: gfmTables=%v setext=%v bullet=%q em=%q wrap=%v/%d ; blocks=%v", opts.UseGFMTables, opts.UseSetext, opts.BulletListMarker, opts.EmphasisMarker, opts.WrapLongLines, opts.MaxLineLength, blocks)
	cls := "plain-text"
	if allowMeta {
		cls = "text-with-metacharacters"
	}
	var md1 string
	var err error
	if cg := core.Catch(func() { md1, err = markdown.NewExporter(opts).ExportToString(d, opts) }); cg != nil {
		res.Add("export/"+cg.Key(), "ExportToString panicked: "+cg.Msg, cg.Stack)
		return res
	}
	if err != nil {
		res.Add("export/error", "export of a generated document failed: "+err.Error(), optNote)
		return res
	}
	res.Count("documents_exported", 1)
	// 1. every run's text exactly once, in body order
	pos := -1
	orderOK := true
	for _, t := range toks {
		res.Count("tokens_checked", 1)
		n := strings.Count(md1, t.tok)
		if n != 1 {
			what := "missing"
			if n > 1 {
				what = "duplicated"
			}
			res.Add("export/"+cls+"/run-text-"+what+"/"+strings.TrimRight(t.block, "0123456789"), fmt.Sprintf("run text %s appears %d times in the exported Markdown", t.tok, n), optNote, md1)
			orderOK = false
			continue
		}
		p := strings.Index(md1, t.tok)
		if p < pos && orderOK {
			kind := "order"
			if t.block == "cell" || hasCellBefore(toks, t.tok) {
				kind = "order/tables-vs-paragraphs"
			}
			res.Add("export/"+cls+"/"+kind, fmt.Sprintf("%s is emitted before content that precedes it in the body", t.tok), optNote, md1)
			orderOK = false
		}
		if p > pos {
			pos = p
		}
	}
	// 2. formatting markers around each formatted run
	em := opts.EmphasisMarker
	for _, t := range toks {
		if t.meta || t.tight || t.block != "para" {
			continue
		}
		i := strings.Index(md1, t.tok)
		if i < 0 {
			continue
		}
		l, rr := i, i+len(t.tok)
		for l > 0 && strings.ContainsRune("*_~`", rune(md1[l-1])) {
			l--
		}
		for rr < len(md1) && strings.ContainsRune("*_~`", rune(md1[rr])) {
			rr++
		}
		left, right := md1[l:i], md1[i+len(t.tok):rr]
		want := ""
		switch {
		case t.bold && t.italic:
			want = "***"
		case t.bold:
			want = "**"
		case t.italic:
			want = em
		}
		res.Count("format_markers_checked", 1)
		bad := ""
		core := strings.NewReplacer("~", "", "`", "").Replace(left)
		switch {
		case want == "***" && len(core) != 3:
			bad = "bold+italic"
		case want == "**" && core != "**":
			bad = "bold"
		case want == em && core != em:
			bad = "italic"
		case want == "" && core != "":
			bad = "unformatted-run-gets-emphasis-markers"
		}
		if t.strike != strings.Contains(left, "~~") {
			bad = "strike"
		}
		if t.code != strings.Contains(left, "`") {
			bad = "code"
		}
		if len(left) != len(right) {
			bad = "unbalanced-markers"
		}
		if bad != "" {
			res.Add("export/format-markers/"+bad, fmt.Sprintf("run %s (bold=%v italic=%v strike=%v code=%v) is exported as %q", t.tok, t.bold, t.italic, t.strike, t.code, left+t.tok+right), optNote, md1)
		}
	}
	// 3. converting back: same block sequence and text, and a second export reproduces the Markdown
	var d2 *document.Document
	copts := markdown.DefaultOptions()
	copts.GenerateTOC = false
	if cg := core.Catch(func() { d2, err = markdown.NewConverter(copts).ConvertString(md1, nil) }); cg != nil {
		res.Add("roundtrip/convert/"+cg.Key(), "converting the exported Markdown panicked: "+cg.Msg, cg.Stack, md1)
		return res
	}
	if err != nil || d2 == nil {
		res.Add("roundtrip/convert-error", fmt.Sprintf("the exported Markdown cannot be converted back: %v", err), md1)
		return res
	}
	back := c20Blocks(d2)
	hasTable := false
	for _, bk := range blocks {
		if bk == "table" {
			hasTable = true
		}
	}
	if hasTable && !opts.UseGFMTables {
		// the simple table style is a presentation without table syntax: it cannot come back as a table
		res.Count("roundtrips_skipped(simple-table-style)", 1)
		res.Nontrivial = len(toks) >= 3
		res.Sig = fmt.Sprintf("%v|%s", opts, md1)
		res.Sample = map[string]interface{}{"case": c.Case, "blocks": blocks, "markdown": md1}
		return res
	}
	for _, t := range toks {
		got, ok := back[t.tok]
		res.Count("roundtrip_tokens_checked", 1)
		want := t.block
		if !ok {
			res.Add("roundtrip/"+cls+"/text-lost/"+strings.TrimRight(want, "0123456789"), fmt.Sprintf("%s is not in the document converted back from the export", t.tok), optNote, md1)
			continue
		}
		if got != want {
			res.Add("roundtrip/"+cls+"/block-kind-changed/"+strings.TrimRight(want, "0123456789")+"->"+strings.TrimRight(got, "0123456789"), fmt.Sprintf("%s was in a %s block and comes back in a %s block", t.tok, want, got), optNote, md1)
		}
	}
	var md2 string
	if cg := core.Catch(func() { md2, err = markdown.NewExporter(opts).ExportToString(d2, opts) }); cg != nil {
		res.Add("roundtrip/export/"+cg.Key(), "second export panicked: "+cg.Msg, cg.Stack)
		return res
	}
	if err == nil && md2 != md1 {
		res.Add("roundtrip/"+cls+"/second-export-differs", "export(convert(export(D))) differs from export(D)", optNote, firstDiff(md1, md2))
	}
	res.Count("roundtrips", 1)
	res.Nontrivial = len(toks) >= 3
	res.Sig = fmt.Sprintf("%v|%s", opts, md1)
	res.Sample = map[string]interface{}{"case": c.Case, "blocks": blocks, "markdown": md1}
	return res
}

func hasCellBefore(toks []xTok, tok string) bool {
	for _, t := range toks {
		if t.tok == tok {
			return false
		}
		if t.block == "cell" {
			return true
		}
	}
	return false
}

func init() {
	core.Register(&core.Check{
		ID:    "C20",
		Level: "exploration",
		Rule: "documents from the exporter's vocabulary: headings 1-6, paragraphs of 1-4 runs with bold/italic/bold+italic/strike/code-font/bold+strike combinations, Quote and CodeBlock paragraphs (with indentation), bullet list paragraphs, tables of 1-3 x 1-3 cells, empty paragraphs, in any interleaving; every run text is a unique token, in odd cases with Markdown metacharacters (* _ ` | # > [x] ~~ 1. \\ -) around it; export options: GFM or simple tables, setext, bullet marker - * +, emphasis marker * _, wrapping at 10/20/40/80. " +
			"Oracle: every token occurs exactly once in the Markdown and the tokens are in body order; formatted runs are enclosed by exactly their markers (independent tokenisation around the token); converting the Markdown back gives every token in a block of the same kind; a second export of the converted document equals the first. Non-trivial: >=3 run texts; distinct = options + Markdown.",
		Cases:         func(t string) int { return tierN(t, 40000, 1000000) },
		Run:           c20Case,
		Assume:        []string{"heading levels 7-9 do not exist in Markdown and are not generated", "blank-line layout and the escaping style of the first export are free as long as the round trip holds"},
		CaseTimeoutS:  60,
		MinNontrivial: 500,
	})
}
