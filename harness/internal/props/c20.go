package props

import (
	"fmt"
	"regexp"
	"strings"
	"unicode"
	"unicode/utf8"

	"github.com/zerx-lab/wordZero/pkg/document"
	"github.com/zerx-lab/wordZero/pkg/markdown"

	"verifharness/internal/core"
	"verifharness/internal/deep"
	"verifharness/internal/rng"
)

// xTok is one run text of the generated document: a unique token, optionally with Markdown metacharacters around it.
type xTok struct {
	tok                        string
	text                       string
	bold, italic, strike, code bool
	block                      string // heading<n> | para | quote | code | list | cell
	meta                       bool   // the text contains Markdown metacharacters
	tight                      bool   // no blank between this run and a neighbour
	wide                       bool   // the text holds blank-separated words of a script written without blanks
}

var c20Meta = []string{"*", "_", "`", "|", "#", ">", "[x]", "~~", "1.", "a*b*c", "_u_", "<t>", "\\", "- "}

// c20Boundary draws the kind of boundary between two runs; 10 = the runs touch (one word whose formatting changes in the middle),
// which is generated only with a letter or digit on both sides: emphasis that starts or ends at punctuation inside a word is
// not expressible in Markdown.
func c20Boundary(r *rng.R, prev, next string, keep int, seen *int) int {
	bk := r.Intn(12)
	if bk >= 10 {
		// letters and digits of any script (a word may end in é, 五 or я as well as in x)
		lastR, _ := utf8.DecodeLastRuneInString(prev)
		firstR, _ := utf8.DecodeRuneInString(next)
		word := func(c rune) bool { return unicode.IsLetter(c) || unicode.IsDigit(c) }
		if prev != "" && next != "" && word(lastR) && word(firstR) {
			*seen++
			if keep < 0 || keep == *seen { // keep: -1 all touching boundaries, 0 none, k only the k-th (diagnosis variants)
				return 10
			}
		}
		return 0
	}
	return bk
}

func c20Doc(r *rng.R, allowMeta bool, keepTight int, boundaries map[string]int, tightClasses *[]string) (*document.Document, []xTok, []string) {
	d := document.New()
	tightSeen := 0
	var toks []xTok
	var blocks []string
	n := 0
	mk := func(block string, formatted bool) (xTok, *document.TextFormat) {
		n++
		t := xTok{tok: fmt.Sprintf("w%dx", n), block: block}
		t.text = t.tok
		if allowMeta && r.Chance(1, 4) {
			m := c20Meta[r.Intn(len(c20Meta))]
			t.meta = true
			switch r.Intn(3) {
			case 0:
				t.text = m + " " + t.tok
			case 1:
				t.text = t.tok + " " + m
			default:
				t.text = t.tok + m + "z"
			}
		}
		if r.Chance(1, 8) {
			// a word that begins or ends in a letter outside ASCII
			t.text = []string{"é", "я", "五", "ß"}[r.Intn(4)] + t.text + []string{"é", "я", "五", ""}[r.Intn(4)]
			t.wide = true
		}
		if r.Chance(1, 6) {
			// words in a script that is written without blanks between words, separated by blanks all the same (name lists,
			// label/value sequences): the blanks are text like any other
			cjk := [][]string{{"张三", "李四", "王五"}, {"项目名称", "文档转换工具"}, {"参会人员", "赵六", "孙七", "周八"}, {"かな", "カナ"}}[r.Intn(4)]
			switch r.Intn(3) {
			case 0:
				t.text = t.text + " " + strings.Join(cjk, " ")
			case 1:
				t.text = strings.Join(cjk, " ") + " " + t.text
			default:
				t.text = cjk[0] + " " + t.text + " " + strings.Join(cjk[1:], " ")
			}
			t.wide = true
		}
		var f *document.TextFormat
		if formatted {
			switch r.Intn(7) {
			case 0:
				t.bold = true
			case 1:
				t.italic = true
			case 2:
				t.bold, t.italic = true, true
			case 3:
				t.strike = true
			case 4:
				t.code = true
			case 5:
				t.bold, t.strike = true, true
			}
			if r.Chance(1, 4) {
				// any of the sixteen combinations
				bits := r.Intn(16)
				t.bold, t.italic, t.strike, t.code = bits&1 != 0, bits&2 != 0, bits&4 != 0, bits&8 != 0
			}
			if t.bold || t.italic || t.strike || t.code {
				f = &document.TextFormat{Bold: t.bold, Italic: t.italic, Strike: t.strike}
				if t.code {
					f.FontFamily = "Consolas"
				}
			}
		}
		return t, f
	}
	nb := r.Range(2, 9)
	for b := 0; b < nb; b++ {
		switch k := r.Intn(12); {
		case k < 2:
			lvl := r.Range(1, 6)
			t, _ := mk(fmt.Sprintf("heading%d", lvl), false)
			hp := d.AddHeadingParagraph(t.text, lvl)
			toks = append(toks, t)
			if hp != nil && r.Chance(1, 4) { // a formatted run in the heading
				t2, f2 := mk(fmt.Sprintf("heading%d", lvl), true)
				hp.AddFormattedText(" "+t2.text, f2)
				toks = append(toks, t2)
			}
			blocks = append(blocks, t.block)
		case k < 6:
			var p *document.Paragraph
			for i, m := 0, r.Range(1, 4); i < m; i++ {
				t, f := mk("para", true)
				txt := t.text
				if i > 0 {
					// run boundaries: the blank between two words may sit at the start of the next run, at the end of the previous one, at
					// both, or in a run of its own; an empty run may sit in between (what a picture or a field leaves in the text)
					last := &p.Runs[len(p.Runs)-1]
					switch bk := c20Boundary(r, last.Text.Content, txt, keepTight, &tightSeen); {
					case bk == 10:
						// no blank at all: two differently formatted runs inside one word
						boundaries["tight"]++
						t.tight = true
						toks[len(toks)-1].tight = true
						*tightClasses = append(*tightClasses, fmtLetters(toks[len(toks)-1])+"|"+fmtLetters(t))
					case bk < 5:
						txt = " " + txt
					case bk == 5:
						last.Text.Content += " "
						boundaries["trailing"]++
					case bk == 6:
						last.Text.Content += " "
						txt = " " + txt
						boundaries["trailing+leading"]++
					case bk == 7:
						p.AddFormattedText(" ", nil)
						boundaries["blank-run"]++
					case bk == 8:
						last.Text.Content += " "
						p.AddFormattedText("", nil)
						txt = " " + txt
						boundaries["trailing+empty-run+leading"]++
					default:
						last.Text.Content += " "
						p.AddFormattedText(" ", nil)
						txt = " " + txt
						boundaries["trailing+blank-run+leading"]++
					}
				}
				if p == nil {
					p = d.AddFormattedParagraph(txt, f)
				} else {
					p.AddFormattedText(txt, f)
				}
				toks = append(toks, t)
			}
			blocks = append(blocks, "para")
		case k == 6:
			t, f := mk("quote", r.Bool())
			qp := d.AddFormattedParagraph(t.text, f)
			qp.SetStyle("Quote")
			toks = append(toks, t)
			for i, m := 0, r.Intn(3); i < m; i++ { // further runs of other formats in the same quote
				t2, f2 := mk("quote", true)
				qp.AddFormattedText(" "+t2.text, f2)
				toks = append(toks, t2)
			}
			blocks = append(blocks, "quote")
		case k == 7:
			for i, m := 0, r.Range(1, 3); i < m; i++ {
				t, _ := mk("code", false)
				d.AddParagraph(strings.Repeat(" ", r.Intn(3)*2) + t.text).SetStyle("CodeBlock")
				toks = append(toks, t)
			}
			blocks = append(blocks, "code")
		case k == 8:
			for i, m := 0, r.Range(1, 3); i < m; i++ {
				t, _ := mk("list", false)
				lp := d.AddBulletList(t.text, 0, document.BulletTypeDot)
				toks = append(toks, t)
				if lp != nil && r.Chance(1, 3) { // a formatted run after the item's first words
					t2, f2 := mk("list", true)
					lp.AddFormattedText(" "+t2.text, f2)
					toks = append(toks, t2)
				}
			}
			blocks = append(blocks, "list")
		case k == 9:
			rows, cols := r.Range(1, 3), r.Range(1, 3)
			data := make([][]string, rows)
			for i := range data {
				for j := 0; j < cols; j++ {
					t, _ := mk("cell", false)
					data[i] = append(data[i], t.text)
					toks = append(toks, t)
				}
			}
			tb, _ := d.AddTable(&document.TableConfig{Rows: rows, Cols: cols, Width: 6000, Data: data})
			if tb != nil && rows > 1 && r.Chance(1, 3) {
				// a formatted run in a body cell
				// (the cell text API does not take strike-through from a TextFormat: cell runs are generated without it)
				noStrike := func(t xTok, f *document.TextFormat) (xTok, *document.TextFormat) {
					t.strike = false
					if f != nil {
						f.Strike = false
						if !f.Bold && !f.Italic && f.FontFamily == "" {
							f = nil
						}
					}
					return t, f
				}
				t2, f2 := noStrike(mk("cell", true))
				cr, cc := r.Range(1, rows-1), r.Intn(cols)
				sep := " "
				wantTight := r.Chance(1, 3)
				prev, f0 := noStrike(mk("cell", true)) // drawn in every variant so that the diagnosis variants see the same random stream
				if wantTight && keepTight < 0 {
					// the cell's own text is replaced by a formatted run and the new run touches it: a cell that consists of touching
					// spans only (boundaries as in paragraphs: letters or digits on both sides)
					alnum := func(b byte) bool { return b >= '0' && b <= '9' || b >= 'a' && b <= 'z' || b >= 'A' && b <= 'Z' }
					if alnum(prev.text[len(prev.text)-1]) && alnum(t2.text[0]) && fmtLetters(prev) != fmtLetters(t2) && touchingReason(fmtLetters(prev)+"|"+fmtLetters(t2)) == "" {
						if tb.SetCellFormattedText(cr, cc, prev.text, f0) == nil {
							at := len(toks) - rows*cols + cr*cols + cc
							toks[at] = prev
							sep = ""
							boundaries["tight-in-cell"]++
							boundaries["tight-in-cell:"+fmtLetters(prev)+"|"+fmtLetters(t2)]++
						}
					}
				}
				if tb.AddCellFormattedText(cr, cc, sep+t2.text, f2) == nil {
					// the new run follows the text of its cell: the ledger keeps body order
					at := len(toks) - rows*cols + cr*cols + cc + 1
					toks = append(toks[:at], append([]xTok{t2}, toks[at:]...)...)
				}
			}
			blocks = append(blocks, "table")
		case k == 10:
			d.AddParagraph("")
		default:
			t, f := mk("para", true)
			d.AddFormattedParagraph(t.text, f)
			toks = append(toks, t)
			blocks = append(blocks, "para")
		}
	}
	return d, toks, blocks
}

var c20TokRe = regexp.MustCompile(`w\d+x`)

type c20Text struct{ kind, text string }

// norm is the text as a reader sees it: runs of white space are one blank, the list glyph of converter-made items is not text;
// code lines keep their leading white space.
func (t c20Text) norm() string {
	if t.kind == "code" {
		return strings.TrimRight(t.text, " \t\n")
	}
	return strings.TrimPrefix(strings.Join(strings.Fields(t.text), " "), "• ")
}

// c20Texts lists the text of every body paragraph and of every cell paragraph.
func c20Texts(d *document.Document) []c20Text {
	var out []c20Text
	para := func(p *document.Paragraph, kind string) {
		var sb strings.Builder
		for _, run := range p.Runs {
			sb.WriteString(run.Text.Content)
		}
		if kind == "" {
			kind = "para"
			if p.Properties != nil && p.Properties.ParagraphStyle != nil {
				switch st := p.Properties.ParagraphStyle.Val; {
				case strings.HasPrefix(st, "Heading"):
					kind = "heading"
				case st == "Quote":
					kind = "quote"
				case st == "CodeBlock":
					kind = "code"
				}
			}
		}
		out = append(out, c20Text{kind, sb.String()})
	}
	for _, el := range d.Body.Elements {
		switch v := el.(type) {
		case *document.Paragraph:
			para(v, "")
		case *document.Table:
			for i := range v.Rows {
				for j := range v.Rows[i].Cells {
					for k := range v.Rows[i].Cells[j].Paragraphs {
						para(&v.Rows[i].Cells[j].Paragraphs[k], "cell")
					}
				}
			}
		}
	}
	return out
}

// blockOf classifies the paragraph/table a token sits in (for the converted-back document).
func c20Blocks(d *document.Document) map[string]string {
	out := map[string]string{}
	for _, el := range d.Body.Elements {
		switch v := el.(type) {
		case *document.Paragraph:
			style := ""
			if v.Properties != nil && v.Properties.ParagraphStyle != nil {
				style = v.Properties.ParagraphStyle.Val
			}
			kind := "para"
			var sb strings.Builder
			for _, run := range v.Runs {
				sb.WriteString(run.Text.Content)
			}
			txt := sb.String()
			switch {
			case strings.HasPrefix(style, "Heading"):
				kind = "heading" + strings.TrimPrefix(style, "Heading")
			case style == "Quote":
				kind = "quote"
			case style == "CodeBlock":
				kind = "code"
			case strings.HasPrefix(strings.TrimSpace(txt), "• ") || (v.Properties != nil && v.Properties.NumberingProperties != nil):
				kind = "list"
			}
			for _, m := range c20TokRe.FindAllString(txt, -1) {
				out[m] = kind
			}
		case *document.Table:
			for i := range v.Rows {
				for j := range v.Rows[i].Cells {
					for _, p := range v.Rows[i].Cells[j].Paragraphs {
						for _, run := range p.Runs {
							for _, m := range c20TokRe.FindAllString(run.Text.Content, -1) {
								out[m] = "cell"
							}
						}
					}
				}
			}
		}
	}
	return out
}

// c20Case runs the case; when it is rejected and the document contains runs that touch without a blank, the same case is run
// again with a blank at those boundaries (same random stream otherwise): if that variant is accepted, the diagnosis is the
// touching runs and the finding is keyed by them, otherwise the findings of the variant (which owe nothing to touching runs) are
// reported.
func c20Case(c *core.Ctx) *core.Result {
	keep := -1
	if (c.Case/2)%2 == 1 {
		keep = 0 // half of the cases have no touching runs at all: no known limitation is in play there
	}
	res, classes := c20Run(c, keep)
	if len(res.Findings) == 0 || len(classes) == 0 {
		return res
	}
	alt, _ := c20Run(c, 0)
	res.Count("diagnosis_reruns", 1)
	if len(alt.Findings) > 0 {
		res.Findings = alt.Findings
		return res
	}
	// which touching boundary is enough on its own?
	var out []core.Finding
	seen := map[string]bool{}
	for k := 1; k <= len(classes); k++ {
		one, cl := c20Run(c, k)
		res.Count("diagnosis_reruns", 1)
		if len(cl) != 1 {
			continue
		}
		for _, f := range one.Findings {
			parts := strings.Split(f.Key, "/")
			why := touchingReason(cl[0])
			if why == "" {
				why = "expressible:" + cl[0] // Markdown can express this boundary with one marker pair per run: not a known limitation
			}
			f.Key = parts[0] + "/touching-runs/" + why + "/" + parts[len(parts)-1]
			if !seen[f.Key] {
				seen[f.Key] = true
				f.Summary = "two runs that touch without a blank (" + cl[0] + "): " + f.Summary
				out = append(out, f)
			}
		}
	}
	if len(out) == 0 {
		for _, f := range res.Findings {
			parts := strings.Split(f.Key, "/")
			f.Key = parts[0] + "/touching-runs/only-in-combination/" + parts[len(parts)-1]
			if !seen[f.Key] {
				seen[f.Key] = true
				out = append(out, f)
			}
		}
	}
	res.Findings = out
	return res
}

// touchingReason says why Markdown cannot express the boundary between two touching runs when each run gets its own marker pair
// (cls = "<letters>|<letters>", see fmtLetters), or "" when it can. Between the last character of the first run and the first
// character of the second sit the closing markers of the first run (code, then emphasis, then strike-through) and the opening
// markers of the second (strike-through, emphasis, code). CommonMark's flanking rules decide per run of equal delimiter
// characters: a closing run is usable only if it follows the word directly or is followed by more punctuation, an opening run only
// if it precedes the word directly or follows punctuation; a run that has to close and open at once works only for '*' and
// only with the same kind of neighbour (word or punctuation) on both sides.
func touchingReason(cls string) string {
	ab := strings.SplitN(cls, "|", 2)
	if len(ab) != 2 {
		return ""
	}
	kinds := func(f string, order []string) []string {
		var out []string
		for _, k := range order {
			switch {
			case k == "star" && f != "plain" && strings.ContainsAny(f, "bi"):
				out = append(out, k)
			case k == "tilde" && f != "plain" && strings.Contains(f, "s"):
				out = append(out, k)
			case k == "tick" && f != "plain" && strings.Contains(f, "c"):
				out = append(out, k)
			}
		}
		return out
	}
	closers := kinds(ab[0], []string{"tick", "star", "tilde"})
	openers := kinds(ab[1], []string{"tilde", "star", "tick"})
	type drun struct {
		kind        string
		close, open bool
	}
	var runs []drun
	for i, k := range append(append([]string{}, closers...), openers...) {
		isClose := i < len(closers)
		if n := len(runs); n > 0 && runs[n-1].kind == k {
			runs[n-1].close = runs[n-1].close || isClose
			runs[n-1].open = runs[n-1].open || !isClose
			continue
		}
		runs = append(runs, drun{kind: k, close: isClose, open: !isClose})
	}
	for i, dr := range runs {
		first, last := i == 0, i == len(runs)-1
		switch {
		case dr.close && dr.open:
			if dr.kind != "star" || first != last {
				return "adjacent-delimiters-of-one-kind"
			}
		case dr.kind == "tick":
		case dr.close && !first && last, dr.open && first && !last:
			return "second-delimiter-kind-at-a-word-boundary"
		}
	}
	return ""
}

// fmtLetters names the formatting of a run: b(old) i(talic) s(trike) c(ode), or plain.
func fmtLetters(t xTok) string {
	out := ""
	if t.bold {
		out += "b"
	}
	if t.italic {
		out += "i"
	}
	if t.strike {
		out += "s"
	}
	if t.code {
		out += "c"
	}
	if out == "" {
		return "plain"
	}
	return out
}

func c20Run(c *core.Ctx, keepTight int) (*core.Result, []string) {
	res := &core.Result{}
	r := caseRng(c)
	document.VerifResetGlobals()
	allowMeta := c.Case%2 == 1
	bounds := map[string]int{}
	var tightClasses []string
	d, toks, blocks := c20Doc(r, allowMeta, keepTight, bounds, &tightClasses)
	for k, v := range bounds {
		res.Count("run-boundary:"+k, int64(v))
	}
	// every eleventh case exports with the default options as they are, after the process has asked for the library's other
	// option presets: what DefaultExportOptions() hands out does not depend on earlier calls
	primed := c.Case%11 == 5
	if primed {
		_ = markdown.HighQualityExportOptions()
		res.Count("exports_with_untouched_defaults_after_other_presets", 1)
	}
	opts := markdown.DefaultExportOptions()
	gfm, setext, bullet, em, wrap, width := r.Chance(3, 4), r.Bool(), []string{"-", "*", "+"}[r.Intn(3)], []string{"*", "_"}[r.Intn(2)], r.Chance(1, 3), []int{10, 20, 40, 80}[r.Intn(4)]
	if !primed {
		opts.UseGFMTables, opts.UseSetext, opts.BulletListMarker, opts.EmphasisMarker, opts.WrapLongLines, opts.MaxLineLength = gfm, setext, bullet, em, wrap, width
	}
	optNote := fmt.Sprintf("options: gfmTables=%v setext=%v bullet=%q em=%q wrap=%v/%d ; blocks=%v", opts.UseGFMTables, opts.UseSetext, opts.BulletListMarker, opts.EmphasisMarker, opts.WrapLongLines, opts.MaxLineLength, blocks)
	cls := "plain-text"
	if allowMeta {
		cls = "text-with-metacharacters"
	}
	var md1 string
	var err error
	if cg := core.Catch(func() { md1, err = markdown.NewExporter(opts).ExportToString(d, opts) }); cg != nil {
		res.Add("export/"+cg.Key(), "ExportToString panicked: "+cg.Msg, cg.Stack)
		return res, tightClasses
	}
	if err != nil {
		res.Add("export/error", "export of a generated document failed: "+err.Error(), optNote)
		return res, tightClasses
	}
	res.Count("documents_exported", 1)
	// 0. an export reads the document: exporting the same document again (the same options, then other ones) gives the same
	// Markdown again and leaves the body as it was
	if r.Chance(1, 3) {
		before := deep.Hash(d.Body)
		var again string
		o2 := markdown.DefaultExportOptions()
		if cg := core.Catch(func() {
			markdown.NewExporter(o2).ExportToString(d, o2)
			again, _ = markdown.NewExporter(opts).ExportToString(d, opts)
		}); cg == nil {
			res.Count("documents_exported_again", 1)
			if again != md1 {
				res.Add("export/"+cls+"/same-document-exported-again-differs", "a second export of the same in-memory document with the same options gives other Markdown", optNote, "first:\n"+md1, "again:\n"+again)
			}
			if deep.Hash(d.Body) != before {
				res.Add("export/"+cls+"/export-modifies-the-document", "the document body is not the same after it was exported", optNote, md1)
			}
		}
	}
	// 1. every run's text exactly once, in body order
	pos := -1
	orderOK := true
	for _, t := range toks {
		res.Count("tokens_checked", 1)
		n := strings.Count(md1, t.tok)
		if n != 1 {
			what := "missing"
			if n > 1 {
				what = "duplicated"
			}
			res.Add("export/"+cls+"/run-text-"+what+"/"+strings.TrimRight(t.block, "0123456789"), fmt.Sprintf("run text %s appears %d times in the exported Markdown", t.tok, n), optNote, md1)
			orderOK = false
			continue
		}
		p := strings.Index(md1, t.tok)
		if p < pos && orderOK {
			kind := "order"
			if t.block == "cell" || hasCellBefore(toks, t.tok) {
				kind = "order/tables-vs-paragraphs"
			}
			res.Add("export/"+cls+"/"+kind, fmt.Sprintf("%s is emitted before content that precedes it in the body", t.tok), optNote, md1)
			orderOK = false
		}
		if p > pos {
			pos = p
		}
	}
	// 2. formatting markers around each formatted run
	em = opts.EmphasisMarker
	for _, t := range toks {
		if t.meta || t.wide || t.tight || t.block != "para" {
			continue
		}
		i := strings.Index(md1, t.tok)
		if i < 0 {
			continue
		}
		l, rr := i, i+len(t.tok)
		for l > 0 && strings.ContainsRune("*_~`", rune(md1[l-1])) {
			l--
		}
		for rr < len(md1) && strings.ContainsRune("*_~`", rune(md1[rr])) {
			rr++
		}
		left, right := md1[l:i], md1[i+len(t.tok):rr]
		want := ""
		switch {
		case t.bold && t.italic:
			want = "***"
		case t.bold:
			want = "**"
		case t.italic:
			want = em
		}
		res.Count("format_markers_checked", 1)
		bad := ""
		core := strings.NewReplacer("~", "", "`", "").Replace(left)
		switch {
		case want == "***" && len(core) != 3:
			bad = "bold+italic"
		case want == "**" && core != "**":
			bad = "bold"
		case want == em && core != em:
			bad = "italic"
		case want == "" && core != "":
			bad = "unformatted-run-gets-emphasis-markers"
		}
		if t.strike != strings.Contains(left, "~~") {
			bad = "strike"
		}
		if t.code != strings.Contains(left, "`") {
			bad = "code"
		}
		if len(left) != len(right) {
			bad = "unbalanced-markers"
		}
		if bad != "" {
			res.Add("export/format-markers/"+bad, fmt.Sprintf("run %s (bold=%v italic=%v strike=%v code=%v) is exported as %q", t.tok, t.bold, t.italic, t.strike, t.code, left+t.tok+right), optNote, md1)
		}
	}
	// 3. converting back: same block sequence and text, and a second export reproduces the Markdown
	var d2 *document.Document
	copts := markdown.DefaultOptions()
	copts.GenerateTOC = false
	if cg := core.Catch(func() { d2, err = markdown.NewConverter(copts).ConvertString(md1, nil) }); cg != nil {
		res.Add("roundtrip/convert/"+cg.Key(), "converting the exported Markdown panicked: "+cg.Msg, cg.Stack, md1)
		return res, tightClasses
	}
	if err != nil || d2 == nil {
		res.Add("roundtrip/convert-error", fmt.Sprintf("the exported Markdown cannot be converted back: %v", err), md1)
		return res, tightClasses
	}
	back := c20Blocks(d2)
	hasTable := false
	for _, bk := range blocks {
		if bk == "table" {
			hasTable = true
		}
	}
	if hasTable && !opts.UseGFMTables {
		// the simple table style is a presentation without table syntax: it cannot come back as a table
		res.Count("roundtrips_skipped(simple-table-style)", 1)
		res.Nontrivial = len(toks) >= 3
		res.Sig = fmt.Sprintf("%v|%s", opts, md1)
		res.Sample = map[string]interface{}{"case": c.Case, "blocks": blocks, "markdown": md1}
		return res, tightClasses
	}
	for _, t := range toks {
		got, ok := back[t.tok]
		res.Count("roundtrip_tokens_checked", 1)
		want := t.block
		if !ok {
			res.Add("roundtrip/"+cls+"/text-lost/"+strings.TrimRight(want, "0123456789"), fmt.Sprintf("%s is not in the document converted back from the export", t.tok), optNote, md1)
			continue
		}
		if got != want {
			res.Add("roundtrip/"+cls+"/block-kind-changed/"+strings.TrimRight(want, "0123456789")+"->"+strings.TrimRight(got, "0123456789"), fmt.Sprintf("%s was in a %s block and comes back in a %s block", t.tok, want, got), optNote, md1)
		}
	}
	// the text of every block comes back as it was (runs of white space count as one blank; code lines keep their indentation)
	orig, conv := c20Texts(d), c20Texts(d2)
	tightTok := map[string]bool{}
	for _, t := range toks {
		if t.tight {
			tightTok[t.tok] = true
		}
	}
	for _, ot := range orig {
		ids := c20TokRe.FindAllString(ot.text, -1)
		if len(ids) == 0 {
			continue
		}
		skip := false
		for _, id := range ids {
			skip = skip || tightTok[id]
		}
		if skip {
			continue // touching runs: see the diagnosis in c20Case
		}
		for _, ct := range conv {
			if !strings.Contains(ct.text, ids[0]) {
				continue
			}
			res.Count("roundtrip_block_texts_compared", 1)
			a, b := ot.norm(), ct.norm()
			if a != b {
				what := "text-changed"
				if strings.Join(strings.Fields(a), "") == strings.Join(strings.Fields(b), "") {
					what = "blank-lost-or-added"
				}
				res.Add("roundtrip/"+cls+"/"+what+"/"+ot.kind, fmt.Sprintf("a %s block read %q and reads %q after export and conversion", ot.kind, a, b), optNote, md1)
			}
			break
		}
	}
	var md2 string
	if cg := core.Catch(func() { md2, err = markdown.NewExporter(opts).ExportToString(d2, opts) }); cg != nil {
		res.Add("roundtrip/export/"+cg.Key(), "second export panicked: "+cg.Msg, cg.Stack)
		return res, tightClasses
	}
	if err == nil && md2 != md1 {
		res.Add("roundtrip/"+cls+"/second-export-differs", "export(convert(export(D))) differs from export(D)", optNote, firstDiff(md1, md2))
	}
	res.Count("roundtrips", 1)
	res.Nontrivial = len(toks) >= 3
	res.Sig = fmt.Sprintf("%v|%s", opts, md1)
	res.Sample = map[string]interface{}{"case": c.Case, "blocks": blocks, "markdown": md1}
	return res, tightClasses
}

func hasCellBefore(toks []xTok, tok string) bool {
	for _, t := range toks {
		if t.tok == tok {
			return false
		}
		if t.block == "cell" {
			return true
		}
	}
	return false
}

func init() {
	core.Register(&core.Check{
		ID:    "C20",
		Level: "exploration",
		Rule: "documents from the exporter's vocabulary: headings 1-6, paragraphs of 1-4 runs with any of the sixteen bold/italic/strike/code-font combinations, the blank between two runs at the start of the second, the end of the first, both, in a run of its own, around an empty run, or (half of the cases) absent so that the runs touch inside one word, Quote and CodeBlock paragraphs (with indentation), bullet list paragraphs, tables of 1-3 x 1-3 cells, empty paragraphs, in any interleaving; every run text is a unique token, one in six with blank-separated CJK/kana words around it, in odd cases with Markdown metacharacters (* _ ` | # > [x] ~~ 1. \\ -) around it; export options: GFM or simple tables, setext, bullet marker - * +, emphasis marker * _, wrapping at 10/20/40/80. " +
			"Oracle: every token occurs exactly once in the Markdown and the tokens are in body order; formatted runs are enclosed by exactly their markers (independent tokenisation around the token); converting the Markdown back gives every token in a block of the same kind and every block the text it had (runs of white space count as one blank, code lines keep their indentation; blocks with touching runs excepted); a second export of the converted document equals the first. Non-trivial: >=3 run texts; distinct = options + Markdown.",
		Cases:         func(t string) int { return tierN(t, 40000, 1000000) },
		Run:           c20Case,
		Assume:        []string{"heading levels 7-9 do not exist in Markdown and are not generated", "blank-line layout and the escaping style of the first export are free as long as the round trip holds", "runs that touch are generated only with a letter or digit on both sides of the boundary", "a rejected case with touching runs is re-run with one touching boundary at a time; the boundary is classified by CommonMark's flanking rules (touchingReason)"},
		CaseTimeoutS:  60,
		MinNontrivial: 500,
	})
}
