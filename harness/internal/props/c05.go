package props

import (
	"bytes"
	"fmt"
	"io"
	"os"
	"os/exec"
	"path/filepath"
	"regexp"
	"runtime"
	"sort"
	"strings"
	"syscall"

	"github.com/zerx-lab/wordZero/pkg/document"

	"verifharness/internal/canon"
	"verifharness/internal/core"
	"verifharness/internal/gen"
	"verifharness/internal/opc"
	"verifharness/internal/rng"
)

// c05Doc builds the d-th document of the fault sweep (sizes from tiny to a few hundred KB).
func c05Doc(seed uint64, d int, workDir string) *document.Document {
	r := rng.Derive(seed, h64("C05doc"), uint64(d))
	document.VerifResetGlobals()
	s := NewScript(r, false, workDir)
	s.NoReopen = true
	switch d % 6 {
	case 4, 5: // a small package of another producer, opened: the serialised parts add up to a few hundred bytes .. ~9 KiB
		// (straddles the 4 KiB buffer sizes of archive/zip and bufio; a New() document never gets below ~16 KiB)
		n := r.Range(0, 40)
		if d%6 == 5 {
			n = r.Range(0, 6000)
		}
		body := strings.Repeat("a", n)
		pkg := gen.MinimalPackage(func(m map[string]string) {
			m["word/document.xml"] = strings.Replace(m["word/document.xml"], "hello", "hello"+body, 1)
			if r.Chance(1, 3) {
				delete(m, "word/styles.xml")
				m["word/_rels/document.xml.rels"] = strings.Replace(m["word/_rels/document.xml.rels"], `<Relationship Id="rId1" Type="http://schemas.openxmlformats.org/officeDocument/2006/relationships/styles" Target="styles.xml"/>`, "", 1)
				m["[Content_Types].xml"] = strings.Replace(m["[Content_Types].xml"], `<Override PartName="/word/styles.xml" ContentType="application/vnd.openxmlformats-officedocument.wordprocessingml.styles+xml"/>`, "", 1)
			}
		})
		if od, err := document.OpenFromMemory(io.NopCloser(bytes.NewReader(pkg))); err == nil && od != nil && od.Body != nil {
			if r.Chance(1, 3) {
				od.AddParagraph("appended")
			}
			return od
		}
		s.Doc.AddParagraph("x")
	case 0: // tiny
		s.Doc.AddParagraph("x")
	case 1: // text only, mid size
		s.Weights = map[string]int{"AddImageFromData": 0, "AddImageFromFile": 0, "Table.content": 3}
		s.Run(r.Range(10, 40), nil)
	case 2: // with images (incompressible => many buffer flushes)
		s.Weights = map[string]int{"AddImageFromData": 30, "AddImageFromFile": 5}
		s.Run(r.Range(10, 30), nil)
	case 3: // big
		s.Weights = map[string]int{"AddImageFromData": 20, "AddParagraph": 30, "AddTable": 10}
		s.Run(r.Range(60, 160), nil)
		for i := 0; i < 4; i++ {
			im := gen.MakeImage("png", 9000+i, 120, 120)
			s.Doc.AddImageFromData(im.Data, "big.png", document.ImageFormatPNG, 120, 120, nil)
		}
		// parts larger than the compressor's 64 KiB window that compress badly: only then does the ZIP writer hand data to the
		// file while a part is still being written (a smaller part is emitted when the next entry is created or at close), so
		// only then can a write failure surface in the middle of a part
		im := gen.MakeImage("png", 9100+d, 230, 230)
		s.Doc.AddImageFromData(im.Data, "huge.png", document.ImageFormatPNG, 230, 230, nil)
		for i, n := 0, r.Range(400, 900); i < n; i++ {
			s.Doc.AddParagraph(gen.RandomHex(r, 200))
		}
	}
	if s.Panic != nil {
		d2 := document.New()
		d2.AddParagraph("fallback after api panic")
		return d2
	}
	return s.Doc
}

func partsOf(b []byte) (map[string][]byte, bool) {
	p := opc.Read(b)
	if len(p.ZipProbs) > 0 {
		return nil, false
	}
	return p.Parts, true
}

func sameParts(a, b map[string][]byte) string {
	var names []string
	for n := range a {
		names = append(names, n)
	}
	sort.Strings(names)
	for _, n := range names {
		bb, ok := b[n]
		if !ok {
			return "part " + n + " missing in file"
		}
		if !bytes.Equal(a[n], bb) {
			// parts the library regenerates from maps (styles) may differ in element order only
			if opc.IsXMLName(n) && canon.EqualXML(a[n], bb, nil) {
				continue
			}
			return "part " + n + " differs"
		}
	}
	for n := range b {
		if _, ok := a[n]; !ok {
			return "extra part " + n + " in file"
		}
	}
	return ""
}

func setFsize(limit uint64) (restore func(), err error) {
	var old syscall.Rlimit
	if err := syscall.Getrlimit(syscall.RLIMIT_FSIZE, &old); err != nil {
		return nil, err
	}
	nl := syscall.Rlimit{Cur: limit, Max: old.Max}
	if err := syscall.Setrlimit(syscall.RLIMIT_FSIZE, &nl); err != nil {
		return nil, err
	}
	return func() { syscall.Setrlimit(syscall.RLIMIT_FSIZE, &old) }, nil
}

const c05Chunks = 8

func c05Docs(tier string) int { return tierN(tier, 12, 40) }

func c05Sweep(c *core.Ctx) *core.Result {
	res := &core.Result{}
	d := c.Case / c05Chunks
	chunk := c.Case % c05Chunks
	doc := c05Doc(c.Seed, d, c.WorkDir)
	want, err := doc.ToBytes()
	if err != nil {
		res.Inconcl = "ToBytes failed on generated document: " + err.Error()
		return res
	}
	wantParts, ok := partsOf(want)
	if !ok {
		res.Inconcl = "ToBytes output unreadable"
		return res
	}
	path := filepath.Join(c.WorkDir, fmt.Sprintf("s%d.docx", c.Case))
	defer os.Remove(path)
	// positive control: no fault
	if err := doc.Save(path); err != nil {
		res.Add("no-fault/Save-returns-error", "Save failed without any injected fault: "+err.Error())
		return res
	}
	full, _ := os.ReadFile(path)
	N := len(full)
	if fp, ok := partsOf(full); !ok {
		res.Add("no-fault/file-unreadable", "Save returned nil without fault but the file is not a readable package")
	} else if diff := sameParts(wantParts, fp); diff != "" {
		res.Add("no-fault/Save-and-ToBytes-disagree", "fault-free Save differs from ToBytes taken immediately before: "+diff)
	}
	res.Count("positive_controls", 1)
	// offsets of this chunk
	maxDense := tierN(c.Tier, 12<<10, 64<<10)
	var offs []int
	if N <= maxDense {
		for k := chunk; k < N; k += c05Chunks {
			offs = append(offs, k)
		}
		res.Count("docs_swept_at_every_offset(chunks)", 1)
	} else {
		set := map[int]bool{}
		for b := 0; b <= N; b += 4096 {
			for _, dlt := range []int{-2, -1, 0, 1, 2} {
				set[b+dlt] = true
			}
		}
		stride := N/tierN(c.Tier, 1500, 12000) + 1
		for k := 0; k < N; k += stride {
			set[k] = true
		}
		for k := N - 600; k < N; k++ { // the tail: central directory + buffered data flushed at close
			set[k] = true
		}
		all := make([]int, 0, len(set))
		for k := range set {
			if k >= 0 && k < N {
				all = append(all, k)
			}
		}
		sort.Ints(all)
		for i, k := range all {
			if i%c05Chunks == chunk {
				offs = append(offs, k)
			}
		}
	}
	runtime.LockOSThread()
	defer runtime.UnlockOSThread()
	nilOnFault := 0
	for _, k := range offs {
		os.Remove(path)
		restore, err := setFsize(uint64(k))
		if err != nil {
			res.Inconcl = "setrlimit failed: " + err.Error()
			return res
		}
		var serr error
		cg := core.Catch(func() { serr = doc.Save(path) })
		restore()
		res.Count("fault_points_fsize", 1)
		if cg != nil {
			res.Add("fsize-limit/Save-panics/"+cg.Key(), fmt.Sprintf("Save panicked with file-size limit %d of %d", k, N), cg.Stack)
			continue
		}
		if serr != nil {
			res.Count("fault_reported_as_error", 1)
			continue
		}
		// Save claims success although at most k < N bytes can be on disk
		fb, _ := os.ReadFile(path)
		fp, ok := partsOf(fb)
		complete := ok && sameParts(wantParts, fp) == ""
		if !complete {
			nilOnFault++
			phase := "during-write"
			if k >= (N/4096)*4096 || N-k <= 4096 {
				phase = "at-close-flush"
			}
			res.Add("fsize-limit/"+phase+"/Save-returns-nil", fmt.Sprintf("Save returned nil although the file-size limit %d < %d cut the output (file has %d bytes, readable package: %v)", k, N, len(fb), ok))
		}
	}
	res.Count("nil_on_fault", int64(nilOnFault))
	res.Nontrivial = len(offs) > 0
	res.Sig = fmt.Sprintf("doc%d/N=%d/chunk%d", d, N, chunk)
	res.Sample = map[string]interface{}{"doc": d, "file_bytes": N, "chunk": chunk, "fault_offsets_in_chunk": len(offs), "first_offsets": firstInts(offs, 6)}
	return res
}

var coreTimeRe = regexp.MustCompile(`<dcterms:(created|modified)[^>]*>[^<]*</dcterms:(created|modified)>`)

// c05History builds one document from a deterministic history: API script on a new document, an opened foreign
// package that is then edited, or the script's own output reopened and edited further. Calling it twice with the
// same arguments yields twins in the same state (process-wide registries are reset first).
func c05History(c *core.Ctx, idx int) (*document.Document, string) {
	r := rng.Derive(c.Seed, h64("C05agree"), uint64(idx))
	document.VerifResetGlobals()
	kind := []string{"new", "foreign+edits", "reopened+edits", "new"}[idx%4]
	s := NewScript(r, false, c.WorkDir)
	s.NoReopen = true
	s.Weights = map[string]int{"RenderAsTemplate": 0, "Reopen": 0, "AddImageFromFile": 0}
	switch kind {
	case "foreign+edits":
		f := gen.MakeForeign(rng.Derive(c.Seed, h64("C05foreign"), uint64(idx)), gen.ForeignOpts{})
		d, err := document.OpenFromMemory(io.NopCloser(bytes.NewReader(f.Bytes(rng.Derive(c.Seed, 7, uint64(idx))))))
		if err != nil || d == nil || d.Body == nil {
			return nil, kind
		}
		s.adopt(d)
		s.Run(r.Range(1, 12), nil)
	case "reopened+edits":
		s.Run(r.Range(3, 20), nil)
		if s.Panic != nil {
			return nil, kind
		}
		b, err := s.Doc.ToBytes()
		if err != nil {
			return nil, kind
		}
		d, err := document.OpenFromMemory(io.NopCloser(bytes.NewReader(b)))
		if err != nil || d == nil || d.Body == nil {
			return nil, kind
		}
		s.adopt(d)
		s.Run(r.Range(1, 10), nil)
	default:
		s.Run(r.Range(1, 30), nil)
	}
	if s.Panic != nil {
		return nil, kind
	}
	// the last edits are the ones a stale serialisation order would miss
	switch r.Intn(4) {
	case 0:
		s.Doc.AddHeadingParagraph("late heading", r.Range(1, 9))
	case 1:
		s.Doc.AddParagraph("late styled").SetStyle("Quote")
	case 2:
		s.Doc.AddHeader(document.HeaderFooterTypeDefault, "late header")
	}
	return s.Doc, kind + "|" + s.Sig()
}

func maskCore(parts map[string][]byte) {
	if b, ok := parts["docProps/core.xml"]; ok {
		parts["docProps/core.xml"] = coreTimeRe.ReplaceAll(b, []byte("<t/>"))
	}
}

// c05Agree: Save and ToBytes never disagree, whichever is called first after the last edit. Twin A is saved to a
// path first (and serialised afterwards), twin B is serialised first (and saved afterwards); all four outputs must
// carry the same parts.
func c05Agree(c *core.Ctx, idx int) *core.Result {
	res := &core.Result{}
	a, sig := c05History(c, idx)
	if a == nil {
		res.Count("agree_histories_skipped", 1)
		return res
	}
	kind := strings.SplitN(sig, "|", 2)[0]
	path := filepath.Join(c.WorkDir, fmt.Sprintf("agree%d.docx", idx))
	defer os.Remove(path)
	var errSave, errBytes error
	var aBytes []byte
	if cg := core.Catch(func() { errSave = a.Save(path); aBytes, errBytes = a.ToBytes() }); cg != nil {
		res.Count("agree_api_panics", 1)
		return res
	}
	aFile, _ := os.ReadFile(path)
	b, _ := c05History(c, idx)
	if b == nil {
		res.Inconcl = "twin history did not reproduce"
		return res
	}
	var bBytes []byte
	var errB, errBSave error
	if cg := core.Catch(func() { bBytes, errB = b.ToBytes(); errBSave = b.Save(path) }); cg != nil {
		res.Count("agree_api_panics", 1)
		return res
	}
	bFile, _ := os.ReadFile(path)
	if (errSave == nil) != (errB == nil) {
		res.Add("agree/"+kind+"/one-entry-point-fails", fmt.Sprintf("Save-first returned %v, ToBytes-first returned %v on twins", errSave, errB), sig)
		return res
	}
	if errSave != nil || errBytes != nil || errB != nil || errBSave != nil {
		res.Count("agree_serialisation_errors", 1)
		return res
	}
	ps := map[string]map[string][]byte{}
	for n, raw := range map[string][]byte{"Save-first file": aFile, "ToBytes after Save": aBytes, "ToBytes-first": bBytes, "Save after ToBytes": bFile} {
		pp, ok := partsOf(raw)
		if !ok {
			res.Add("agree/"+kind+"/unreadable-output", n+" is not a readable package", sig)
			return res
		}
		maskCore(pp)
		ps[n] = pp
	}
	ref := ps["ToBytes-first"]
	for _, n := range []string{"Save-first file", "ToBytes after Save", "Save after ToBytes"} {
		if d := sameParts(ref, ps[n]); d != "" {
			res.Add("agree/"+kind+"/"+strings.ReplaceAll(n, " ", "-")+"-differs-from-ToBytes-first", n+" vs ToBytes-first on twin documents: "+d, sig)
		} else if d := sameParts(ps[n], ref); d != "" {
			res.Add("agree/"+kind+"/"+strings.ReplaceAll(n, " ", "-")+"-differs-from-ToBytes-first", "ToBytes-first vs "+n+" on twin documents: "+d, sig)
		}
		res.Count("agree_outputs_compared", 1)
	}
	res.Count("agree_twins", 1)
	res.Nontrivial = true
	res.Sig = "agree|" + sig
	res.Sample = map[string]interface{}{"agreement_case": idx, "history": kind, "parts": len(ref)}
	return res
}

func firstInts(x []int, n int) []int {
	if len(x) > n {
		return x[:n]
	}
	return x
}

// c05Paths: path faults and positive path cases.
func c05Paths(c *core.Ctx, idx int) *core.Result {
	res := &core.Result{}
	doc := c05Doc(c.Seed, idx, c.WorkDir)
	want, err := doc.ToBytes()
	if err != nil {
		res.Inconcl = "ToBytes failed"
		return res
	}
	wantParts, _ := partsOf(want)
	base := filepath.Join(c.WorkDir, fmt.Sprintf("p%d", c.Case))
	os.MkdirAll(base, 0755)
	defer os.RemoveAll(base)
	expectErr := func(name, path string) {
		var serr error
		if cg := core.Catch(func() { serr = doc.Save(path) }); cg != nil {
			res.Add("path/"+name+"/Save-panics", "Save panicked for target "+name, cg.Stack)
			return
		}
		res.Count("path_faults", 1)
		if serr == nil {
			res.Add("path/"+name+"/Save-returns-nil", "Save returned nil for an unwritable target ("+name+")")
		}
	}
	expectOK := func(name, path string) {
		var serr error
		if cg := core.Catch(func() { serr = doc.Save(path) }); cg != nil {
			res.Add("path/"+name+"/Save-panics", "Save panicked for target "+name, cg.Stack)
			return
		}
		res.Count("path_positive", 1)
		if serr != nil {
			res.Add("path/"+name+"/Save-returns-error", "Save failed for a writable target ("+name+"): "+serr.Error())
			return
		}
		fb, _ := os.ReadFile(path)
		fp, ok := partsOf(fb)
		if !ok {
			res.Add("path/"+name+"/file-unreadable", "Save returned nil but the file is not a readable package ("+name+")")
		} else if diff := sameParts(wantParts, fp); diff != "" {
			res.Add("path/"+name+"/Save-and-ToBytes-disagree", name+": "+diff)
		}
	}
	expectErr("dev-full", "/dev/full")
	os.WriteFile(filepath.Join(base, "regular"), []byte("x"), 0644)
	expectErr("below-regular-file", filepath.Join(base, "regular", "out.docx"))
	os.MkdirAll(filepath.Join(base, "isdir.docx"), 0755)
	expectErr("directory-as-target", filepath.Join(base, "isdir.docx"))
	expectOK("nested-new-directories", filepath.Join(base, "a", "b", "c", "out.docx"))
	long := filepath.Join(base, "existing.docx")
	os.WriteFile(long, bytes.Repeat([]byte("Z"), len(want)*3+1000), 0644)
	expectOK("overwrite-longer-file", long)
	expectOK("non-ascii-name", filepath.Join(base, "文档 ü.docx"))
	// two saves in a row to the same path
	expectOK("save-twice", long)
	// what the path holds when the document is saved to it once more does not matter: its own earlier file damaged without
	// a change of length, cut short, removed, or replaced by another document's file - afterwards it is this document's package
	if fb, err := os.ReadFile(long); err == nil && len(fb) > 64 {
		for i := len(fb) / 3; i < len(fb)/3+24; i++ {
			fb[i] ^= 0x5a
		}
		os.WriteFile(long, fb, 0644)
		expectOK("saved-again-over-its-own-file-damaged-in-place", long)
		os.Truncate(long, int64(len(fb)/2))
		expectOK("saved-again-over-its-own-file-cut-short", long)
		os.Remove(long)
		expectOK("saved-again-after-its-file-was-removed", long)
		if other := c05Doc(c.Seed, idx+6, c.WorkDir); other != nil {
			if err := other.Save(long); err == nil {
				expectOK("saved-again-after-another-document-used-the-path", long)
			}
		}
	}
	res.Nontrivial = true
	res.Sig = fmt.Sprintf("paths/doc%d", idx)
	res.Sample = map[string]interface{}{"doc": idx, "path_cases": []string{"dev-full", "below-regular-file", "directory-as-target", "nested-new-directories", "overwrite-longer-file", "non-ascii-name", "save-twice", "saved-again-over-its-own-file-damaged-in-place", "saved-again-over-its-own-file-cut-short", "saved-again-after-its-file-was-removed", "saved-again-after-another-document-used-the-path"}}
	return res
}

// c05Strace: fail the n-th write(2) / the close(2) on the target with ENOSPC/EIO/EDQUOT via strace.
func c05Strace(c *core.Ctx, idx int) *core.Result {
	res := &core.Result{}
	if _, err := exec.LookPath("strace"); err != nil {
		res.Inconcl = "strace not available"
		return res
	}
	self, _ := os.Executable()
	r := caseRng(c)
	docIdx := idx % c05Docs(c.Tier)
	path := filepath.Join(c.WorkDir, fmt.Sprintf("t%d.docx", c.Case))
	defer os.Remove(path)
	errName := []string{"ENOSPC", "EIO", "EDQUOT"}[r.Intn(3)]
	// how many writes does a clean save of this doc perform?
	probe := func(inject string) (status string, out string) {
		os.Remove(path)
		args := []string{"-f", "-qq", "-o", "/dev/null", "-P", path}
		if inject != "" {
			args = append(args, "-e", "inject="+inject)
		}
		args = append(args, self, "c05child", fmt.Sprint(c.Seed), fmt.Sprint(docIdx), path, c.WorkDir)
		cmd := exec.Command("strace", args...)
		var ob bytes.Buffer
		cmd.Stdout = &ob
		cmd.Stderr = &ob
		cmd.Run()
		s := ob.String()
		for _, line := range strings.Split(s, "\n") {
			if strings.HasPrefix(line, "C05CHILD ") {
				return strings.TrimPrefix(line, "C05CHILD "), s
			}
		}
		return "", s
	}
	st, out := probe("")
	if !strings.HasPrefix(st, "nil complete") {
		res.Inconcl = "strace positive control did not yield 'nil complete': " + st + " / " + lastStr(out, 300)
		return res
	}
	res.Count("strace_positive_controls", 1)
	var writes int
	fmt.Sscanf(st, "nil complete writes=%d", &writes)
	points := []string{}
	for n := 1; n <= 64; n++ {
		points = append(points, fmt.Sprintf("write:error=%s:when=%d", errName, n))
	}
	points = append(points, "close:error=EIO:when=1", "close:error="+errName+":when=1", "write:error="+errName+":when=1+")
	tried := 0
	for _, inj := range points {
		if r.Chance(2, 3) && tried > 4 && !strings.HasPrefix(inj, "close") {
			continue
		}
		st, out := probe(inj)
		tried++
		res.Count("fault_points_strace", 1)
		switch {
		case st == "":
			res.Count("strace_child_no_report", 1)
			_ = out
		case strings.HasPrefix(st, "error"):
			res.Count("fault_reported_as_error", 1)
		case strings.HasPrefix(st, "nil complete"):
			res.Count("fault_not_hit(nil,complete)", 1)
		case strings.HasPrefix(st, "nil INCOMPLETE"):
			kind := "write"
			if strings.HasPrefix(inj, "close") {
				kind = "close"
			}
			res.Add("syscall-error/"+kind+"/Save-returns-nil", fmt.Sprintf("Save returned nil although %s was injected on the target (%s)", inj, st))
		}
	}
	res.Nontrivial = tried > 0
	res.Sig = fmt.Sprintf("strace/doc%d/%s", docIdx, errName)
	res.Sample = map[string]interface{}{"doc": docIdx, "errno": errName, "injections_tried": tried, "example": points[0]}
	return res
}

func lastStr(s string, n int) string {
	if len(s) > n {
		return s[len(s)-n:]
	}
	return s
}

// C05Child is run under strace: saves one document and reports what it observed.
func C05Child(seed uint64, docIdx int, path, workDir string) {
	runtime.LockOSThread()
	doc := c05Doc(seed, docIdx, workDir)
	want, err := doc.ToBytes()
	if err != nil {
		fmt.Println("C05CHILD harness-error ToBytes")
		return
	}
	wantParts, _ := partsOf(want)
	serr := doc.Save(path)
	if serr != nil {
		fmt.Println("C05CHILD error " + strings.ReplaceAll(serr.Error(), "\n", " "))
		return
	}
	fb, _ := os.ReadFile(path)
	fp, ok := partsOf(fb)
	if ok && sameParts(wantParts, fp) == "" {
		fmt.Printf("C05CHILD nil complete writes=%d\n", 0)
	} else {
		fmt.Printf("C05CHILD nil INCOMPLETE bytes=%d readable=%v\n", len(fb), ok)
	}
}

func init() {
	core.Register(&core.Check{
		ID:    "C05",
		Level: "fault_enumeration",
		Rule: "documents (tiny .. several hundred KB, with incompressible images so that the 4 KiB buffer flushes often) x injected write failures: RLIMIT_FSIZE at EVERY byte offset 0..N-1 of the output for documents up to 12 KiB (quick) / 64 KiB (thorough), " +
			"and at every 4 KiB flush boundary +-2, the last 600 bytes and a stride for larger ones; strace-injected ENOSPC/EIO/EDQUOT on the n-th write(2) and on close(2) of the target; path faults (/dev/full, below a regular file, directory as target) and positive path cases. " +
			"plus agreement twins: the same deterministic history (new document / opened foreign package + edits / reopened + edits, ending in a late styled edit) is built twice, one twin is saved first and serialised afterwards, the other the other way round, and all four outputs must carry equal parts (docProps time stamps masked). " +
			"Oracle: Save==nil => file is a complete package whose parts equal ToBytes taken immediately before; injected fault => Save!=nil. A case = one (document, offset chunk); non-trivial if >=1 fault point was injected; distinct = (doc, size, chunk).",
		Cases: func(t string) int {
			return c05Docs(t)*c05Chunks + tierN(t, 6, 24) + tierN(t, 8, 60) + tierN(t, 240, 6000)
		},
		Run: func(c *core.Ctx) *core.Result {
			sweep := c05Docs(c.Tier) * c05Chunks
			nPath := tierN(c.Tier, 6, 24)
			switch {
			case c.Case < sweep:
				return c05Sweep(c)
			case c.Case < sweep+nPath:
				return c05Paths(c, c.Case-sweep)
			case c.Case < sweep+nPath+tierN(c.Tier, 8, 60):
				return c05Strace(c, c.Case-sweep-nPath)
			default:
				return c05Agree(c, c.Case-sweep-nPath-tierN(c.Tier, 8, 60))
			}
		},
		Assume:        []string{"RLIMIT_FSIZE makes write(2) fail with EFBIG at the given offset (Go ignores SIGXFSZ)", "strace -e inject fails the n-th write/close on the target path", "no fsync/durability and no atomic-replace semantics are demanded"},
		CaseTimeoutS:  240,
		MinNontrivial: 20,
	})
}
