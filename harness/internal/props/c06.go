package props

import (
	"archive/zip"
	"bytes"
	"compress/flate"
	"fmt"
	"hash/crc32"
	"io"
	"math/bits"
	"os"
	"path/filepath"
	"regexp"
	"sort"
	"strings"

	"github.com/zerx-lab/wordZero/pkg/document"
	"github.com/zerx-lab/wordZero/pkg/markdown"

	"verifharness/internal/core"
	"verifharness/internal/gen"
	"verifharness/internal/opc"
	"verifharness/internal/rng"
)

// basePackage returns a valid package (library-built or foreign) as an ordered part list.
func basePackage(r *rng.R, workDir string) (names []string, parts map[string][]byte, origin string) {
	if r.Bool() {
		f := gen.MakeForeign(r, gen.ForeignOpts{})
		return append([]string{}, f.Order...), f.Parts, "foreign"
	}
	document.VerifResetGlobals()
	s := NewScript(r, false, workDir)
	s.NoReopen = true
	s.Weights = map[string]int{"AddTable": 10, "Table.structure": 8, "Table.content": 10, "Header/Footer": 6, "AddImageFromData": 6, "Lists": 5, "Notes": 4, "PageSettings": 5, "TOC": 3, "AddMathFormula": 5}
	s.Run(r.Range(3, 25), nil)
	if s.Panic == nil {
		if b, err := s.Doc.ToBytes(); err == nil {
			p := opc.Read(b)
			return append([]string{}, p.Names...), p.Parts, "library"
		}
	}
	f := gen.MakeForeign(r, gen.ForeignOpts{})
	return append([]string{}, f.Order...), f.Parts, "foreign"
}

func zipParts(names []string, parts map[string][]byte) []byte {
	var buf bytes.Buffer
	zw := zip.NewWriter(&buf)
	for _, n := range names {
		w, err := zw.Create(n)
		if err != nil {
			continue
		}
		w.Write(parts[n])
	}
	zw.Close()
	return buf.Bytes()
}

// zipPartsLying writes the archive with one entry whose header claims another uncompressed size than its data has.
func zipPartsLying(names []string, parts map[string][]byte, victim string, claimed uint64) []byte {
	var buf bytes.Buffer
	zw := zip.NewWriter(&buf)
	done := false
	for _, n := range names {
		if n == victim && !done {
			done = true
			var comp bytes.Buffer
			fw, _ := flate.NewWriter(&comp, flate.DefaultCompression)
			fw.Write(parts[n])
			fw.Close()
			fh := &zip.FileHeader{Name: n, Method: zip.Deflate}
			fh.CRC32 = crc32.ChecksumIEEE(parts[n])
			fh.CompressedSize64 = uint64(comp.Len())
			fh.UncompressedSize64 = claimed
			if w, err := zw.CreateRaw(fh); err == nil {
				w.Write(comp.Bytes())
			}
			continue
		}
		w, err := zw.Create(n)
		if err != nil {
			continue
		}
		w.Write(parts[n])
	}
	zw.Close()
	return buf.Bytes()
}

var tagRe = regexp.MustCompile(`<[^<>!?]+>`)

const strictW = "http://purl.oclc.org/ooxml/wordprocessingml/main"

// mutateXML applies one structure-aware mutation; returns the mutation class.
func mutateXML(r *rng.R, x string) (string, string) {
	tags := tagRe.FindAllStringIndex(x, -1)
	pickTag := func() (int, int, bool) {
		if len(tags) == 0 {
			return 0, 0, false
		}
		t := tags[r.Intn(len(tags))]
		return t[0], t[1], true
	}
	switch r.Intn(37) {
	case 31:
		// legal respellings of tags: white space before the closing bracket of end tags and start tags
		ws := []string{" ", "\n", "\t ", " \r\n"}[r.Intn(4)]
		every := r.Range(1, 3)
		n := 0
		re := regexp.MustCompile(`</[A-Za-z0-9:]+>`)
		if r.Chance(1, 3) {
			re = regexp.MustCompile(`</(m:[A-Za-z]+|w:sdt[A-Za-z]*|w:t|w:instrText)>`)
			every = 1
		}
		out := re.ReplaceAllStringFunc(x, func(m string) string {
			n++
			if n%every != 0 {
				return m
			}
			return m[:len(m)-1] + ws + ">"
		})
		if r.Bool() {
			out = regexp.MustCompile(`<([A-Za-z0-9]+:[A-Za-z0-9]+)>`).ReplaceAllString(out, "<$1"+ws+">")
		}
		return out, "whitespace-in-tags"
	case 32:
		// attribute values in single quotes
		return regexp.MustCompile(` ([A-Za-z0-9:]+)="([^"'<>]*)"`).ReplaceAllString(x, " $1='$2'"), "single-quoted-attributes"
	case 33:
		// empty-element tags written as start/end pairs and the other way round
		if r.Bool() {
			return regexp.MustCompile(`<([A-Za-z0-9:]+)((?: [^<>/]*(?:"[^"]*")?)*)/>`).ReplaceAllString(x, "<$1$2></$1>"), "empty-elements-as-pairs"
		}
		return regexp.MustCompile(`<([A-Za-z0-9:]+)((?: [^<>/]*)?)></([A-Za-z0-9:]+)>`).ReplaceAllStringFunc(x, func(m string) string {
			sm := regexp.MustCompile(`^<([A-Za-z0-9:]+)((?: [^<>/]*)?)></([A-Za-z0-9:]+)>$`).FindStringSubmatch(m)
			if sm == nil || sm[1] != sm[3] {
				return m
			}
			return "<" + sm[1] + sm[2] + "/>"
		}), "pairs-as-empty-elements"
	case 34:
		// formulas under another prefix, in the default namespace, with white space in their tags, self-closing
		mns := "http://schemas.openxmlformats.org/officeDocument/2006/math"
		f := []string{`<oMath xmlns="` + mns + `"><r><t>a+b</t></r></oMath>`,
			`<mml:oMath xmlns:mml="` + mns + `"><mml:r><mml:t>a</mml:t></mml:r></mml:oMath>`,
			`<m:oMath xmlns:m="` + mns + `"><m:r><m:t>a</m:t></m:r></m:oMath >`,
			`<m:oMath xmlns:m="` + mns + `"><m:r><m:t>a</m:t></m:r></m:oMath` + "\n" + `>`,
			`<m:oMath xmlns:m="` + mns + `" ><m:r ><m:t >a</m:t ></m:r ></m:oMath >`,
			`<m:oMath xmlns:m="` + mns + `"/>`,
			`<m:oMath xmlns:m="` + mns + `"></m:oMath>`,
			`<m:oMathPara xmlns:m="` + mns + `"><m:oMath><m:r><m:t>a</m:t></m:r></m:oMath ></m:oMathPara >`,
			`<m:oMathPara xmlns:m="` + mns + `"/>`,
			`<oMathPara xmlns="` + mns + `"><oMath><r><t>q</t></r></oMath></oMathPara>`}[r.Intn(10)]
		where := r.Intn(3)
		switch {
		case where == 0 && strings.Contains(x, "</w:p>"):
			return strings.Replace(x, "</w:p>", f+"</w:p>", r.Range(1, 2)), "formula-spelling"
		case where == 1 && strings.Contains(x, "</w:tc>"):
			return strings.Replace(x, "</w:tc>", "<w:p>"+f+"</w:p></w:tc>", 1), "formula-spelling"
		}
		return strings.Replace(x, "<w:body>", "<w:body><w:p>"+f+"</w:p>"+f, 1), "formula-spelling"
	case 35:
		// content controls in incomplete but schema-valid forms (w:sdtPr, w:sdtEndPr and w:sdtContent are all optional), among them
		// table-of-contents controls, which the TOC functions look for
		toc := `<w:sdtPr><w:docPartObj><w:docPartGallery w:val="Table of Contents"/><w:docPartUnique/></w:docPartObj></w:sdtPr>`
		v := []string{`<w:sdt>` + toc + `</w:sdt>`, `<w:sdt>` + toc + `<w:sdtContent/></w:sdt>`, `<w:sdt>` + toc + `<w:sdtEndPr/></w:sdt>`,
			`<w:sdt><w:sdtContent><w:p><w:r><w:t>in control</w:t></w:r></w:p></w:sdtContent></w:sdt>`, `<w:sdt><w:sdtPr/></w:sdt>`,
			`<w:sdt>` + toc + `<w:sdtContent><w:tbl><w:tr><w:tc><w:p/></w:tc></w:tr></w:tbl></w:sdtContent></w:sdt>`,
			`<w:sdt><w:sdtPr><w:docPartObj/></w:sdtPr><w:sdtContent><w:p/></w:sdtContent></w:sdt>`,
			`<w:sdt><w:sdtPr><w:docPartObj><w:docPartGallery/></w:docPartObj></w:sdtPr></w:sdt>`}[r.Intn(8)]
		if r.Chance(1, 3) && strings.Contains(x, "<w:sectPr") {
			return strings.Replace(x, "<w:sectPr", v+"<w:sectPr", 1), "incomplete-content-control"
		}
		if r.Chance(1, 3) && strings.Contains(x, "</w:tc>") {
			return strings.Replace(x, "</w:tc>", v+"<w:p/></w:tc>", 1), "incomplete-content-control"
		}
		return strings.Replace(x, "<w:body>", "<w:body>"+v, 1), "incomplete-content-control"
	case 36:
		// an element removed together with everything in it (optional containers: sdtContent, pPr, tblPr, tblGrid, tcPr, rPr, ...)
		if a, b, ok := pickTag(); ok && x[a+1] != '/' && x[b-2] != '/' {
			name := x[a+1 : b-1]
			if i := strings.IndexAny(name, " \t\n"); i >= 0 {
				name = name[:i]
			}
			depth, pos := 1, b
			reN := regexp.MustCompile(`<(/?)` + regexp.QuoteMeta(name) + `(?:[ \t\n][^<>]*)?(/?)>`)
			for depth > 0 {
				loc := reN.FindStringSubmatchIndex(x[pos:])
				if loc == nil {
					break
				}
				switch {
				case loc[2] != loc[3]:
					depth--
				case loc[4] == loc[5]:
					depth++
				}
				pos += loc[1]
			}
			if depth == 0 {
				return x[:a] + x[pos:], "delete-subtree"
			}
		}
	case 29:
		// named character references that XML does not predefine (what an HTML-minded producer writes), in run text and inside formulas
		ent := []string{"&nbsp;", "&times;", "&alpha;", "&copy;", "&mdash;", "&bogus;", "&#xD800;", "&#0;"}[r.Intn(8)]
		n := 0
		every := r.Range(1, 3)
		out := regexp.MustCompile(`<(w:t|m:t|w:instrText)( [^<>]*)?>`).ReplaceAllStringFunc(x, func(m string) string {
			n++
			if n%every != 0 {
				return m
			}
			return m + ent
		})
		return out, "named-entity"
	case 30:
		// formulas in every spelling the reader has a path for: inline, paragraph-level, in a cell, in a content control; their
		// content is carried as raw markup
		f := []string{`<m:oMath xmlns:m="http://schemas.openxmlformats.org/officeDocument/2006/math"><m:r><m:t>x&amp;y</m:t></m:r></m:oMath>`,
			`<m:oMathPara xmlns:m="http://schemas.openxmlformats.org/officeDocument/2006/math"><m:oMath><m:r><m:t>a&times;b</m:t></m:r></m:oMath></m:oMathPara>`,
			`<m:oMath xmlns:m="http://schemas.openxmlformats.org/officeDocument/2006/math"><m:r><m:t>&alpha;</m:t></m:r><bad></m:oMath>`,
			`<m:oMath xmlns:m="http://schemas.openxmlformats.org/officeDocument/2006/math"><m:r><m:t><![CDATA[<&>]]></m:t></m:r><!-- c --><?pi x?></m:oMath>`}[r.Intn(4)]
		if strings.Contains(x, "</w:p>") {
			return strings.Replace(x, "</w:p>", f+"</w:p>", r.Range(1, 2)), "formula-markup"
		}
		return strings.Replace(x, "<w:body>", "<w:body><w:p>"+f+"</w:p>", 1), "formula-markup"
	case 0:
		if len(x) == 0 {
			return x, "noop"
		}
		return x[:r.Intn(len(x))], "truncate-byte"
	case 1:
		if a, _, ok := pickTag(); ok {
			return x[:a], "truncate-at-tag"
		}
	case 2:
		if a, b, ok := pickTag(); ok {
			return x[:a] + x[b:], "delete-tag"
		}
	case 3:
		if a, b, ok := pickTag(); ok {
			return x[:b] + x[a:b] + x[b:], "duplicate-tag"
		}
	case 4:
		if len(tags) >= 2 {
			i, j := r.Intn(len(tags)), r.Intn(len(tags))
			if i > j {
				i, j = j, i
			}
			if i != j {
				a, b := tags[i], tags[j]
				return x[:a[0]] + x[b[0]:b[1]] + x[a[1]:b[0]] + x[a[0]:a[1]] + x[b[1]:], "swap-tags"
			}
		}
	case 5:
		pairs := [][2]string{{"w:p>", "w:tbl>"}, {"w:r>", "w:p>"}, {"w:tc>", "w:tr>"}, {"w:tbl>", "w:r>"}, {"w:body>", "w:bdy>"}, {"w:t>", "w:tbl>"}, {"w:tr>", "w:tc>"}, {"w:sectPr", "w:p"}, {"w:pPr>", "w:rPr>"}, {"w:tcPr>", "w:tblPr>"}}
		p := pairs[r.Intn(len(pairs))]
		if r.Bool() {
			return strings.Replace(x, p[0], p[1], 1), "rename-one-tag"
		}
		return strings.ReplaceAll(x, p[0], p[1]), "rename-all-tags"
	case 6:
		ins := []string{"<w:tbl><w:tr><w:tc><w:p/></w:tc></w:tr></w:tbl>", "<w:p><w:r><w:t>x</w:t></w:r></w:p>", "<w:sectPr><w:pgSz w:w=\"1\" w:h=\"1\"/></w:sectPr>", "<w:tr/>", "<w:tc/>", "<w:tbl/>", "<w:tbl><w:tr/></w:tbl>",
			"<w:tbl><w:tblGrid/><w:tr><w:tc/></w:tr></w:tbl>", "<w:drawing/>", "<w:drawing><wp:inline/></w:drawing>", "<w:drawing><wp:anchor/></w:drawing>", "<w:r><w:drawing><wp:inline><a:graphic><a:graphicData><pic:pic><pic:blipFill><a:blip/></pic:blipFill></pic:pic></a:graphicData></a:graphic></wp:inline></w:drawing></w:r>",
			"<w:tcPr><w:gridSpan w:val=\"abc\"/><w:vMerge w:val=\"zz\"/></w:tcPr>", "<w:tcPr><w:gridSpan w:val=\"-5\"/></w:tcPr>", "<w:tcPr><w:gridSpan w:val=\"999999999999\"/></w:tcPr>", "<w:pPr><w:numPr/></w:pPr>", "<w:rPr><w:p/></w:rPr>", "<w:pPr><w:sectPr/></w:pPr>",
			"<w:tblPr/>", "<w:trPr><w:trHeight/></w:trPr>", "<w:sectPr><w:pgSz/><w:pgMar/><w:docGrid/></w:sectPr>", "<w:sectPr><w:pgSz w:w=\"x\" w:h=\"-1\" w:orient=\"q\"/><w:pgMar w:top=\"NaN\"/></w:sectPr>", "<w:sdt><w:sdtContent/></w:sdt>", "<w:bookmarkStart/>"}
		if a, b, ok := pickTag(); ok {
			_ = a
			return x[:b] + ins[r.Intn(len(ins))] + x[b:], "insert-element"
		}
	case 7:
		re := regexp.MustCompile(`w:(val|w|h|type|id|orient|top|left|fill|color|sz)="[^"]*"`)
		if r.Bool() {
			re = regexp.MustCompile(`\b(?:w|r|wp|a|pic|m):[A-Za-z]+="[^"]*"`) // any attribute of the document's vocabularies
		}
		locs := re.FindAllStringIndex(x, -1)
		if len(locs) > 0 {
			l := locs[r.Intn(len(locs))]
			name := x[l[0] : strings.Index(x[l[0]:], "=")+l[0]]
			v := []string{"", "abc", "-1", "99999999999999999999", "0", "1e9", " ", "\t", "0", "0.5", "-0", "00", "+1", "NaN", "Inf", "0x10",
				// names and ids are free text: brackets, stars, backslashes, percent signs, braces mean nothing in XML
				"Ledger(2024", "a)b", "x**", "[a-", "c:\\d", "100%s", "{{x}}", "../../x", "a b", "$1", "名前", "a|b?", "^$"}[r.Intn(29)]
			if r.Chance(1, 4) {
				return x[:l[0]] + x[l[1]:], "strip-attribute"
			}
			return x[:l[0]] + name + `="` + v + `"` + x[l[1]:], "odd-attribute-value"
		}
	case 8:
		switch r.Intn(4) {
		case 0:
			return strings.ReplaceAll(x, nsWConst, strictW), "namespace-strict"
		case 1:
			return strings.ReplaceAll(x, nsWConst, ""), "namespace-empty"
		case 2:
			return strings.ReplaceAll(x, nsWConst, "urn:wrong"), "namespace-wrong"
		default:
			return strings.Replace(x, `xmlns:w="`+nsWConst+`"`, "", 1), "namespace-undeclared"
		}
	case 9:
		return "", "empty-part"
	case 10:
		return `<?xml version="1.0"?><root/>`, "wrong-root"
	case 11:
		return `<?xml version="1.0"?><w:document xmlns:w="` + nsWConst + `"/>`, "document-without-body"
	case 12:
		return `<?xml version="1.0"?><w:document xmlns:w="` + nsWConst + `"><w:body/></w:document>`, "empty-body"
	case 13:
		n := []int{50, 500, 5000}[r.Intn(3)]
		el := [][2]string{{"<w:tbl><w:tr><w:tc>", "</w:tc></w:tr></w:tbl>"}, {"<w:p>", "</w:p>"}, {"<w:r>", "</w:r>"}, {"<w:sdt><w:sdtContent>", "</w:sdtContent></w:sdt>"}}[r.Intn(4)]
		deep := strings.Repeat(el[0], n) + "<w:p/>" + strings.Repeat(el[1], n)
		return strings.Replace(x, "<w:body>", "<w:body>"+deep, 1), "deep-nesting"
	case 14:
		n := []int{1000, 20000}[r.Intn(2)]
		sib := []string{"<w:p/>", "<w:p><w:r><w:t>a</w:t></w:r></w:p>", "<w:tbl><w:tr><w:tc><w:p/></w:tc></w:tr></w:tbl>", "<w:sectPr/>"}[r.Intn(4)]
		return strings.Replace(x, "<w:body>", "<w:body>"+strings.Repeat(sib, n), 1), "many-siblings"
	case 15:
		return strings.Replace(x, `w:val="`, `w:val="`+strings.Repeat("A", 1<<20), 1), "huge-attribute"
	case 16:
		return strings.Replace(x, `encoding="UTF-8"`, `encoding="UTF-16"`, 1), "declared-utf16"
	case 17:
		return `<?xml version="1.0"?><!DOCTYPE d [<!ENTITY a "aaaaaaaaaa"><!ENTITY b "&a;&a;&a;&a;&a;&a;&a;&a;">]>` + strings.TrimPrefix(x, `<?xml version="1.0" encoding="UTF-8" standalone="yes"?>`), "doctype-entities"
	case 18:
		if len(x) > 0 {
			b := []byte(x)
			for i := 0; i < r.Range(1, 8); i++ {
				b[r.Intn(len(b))] ^= byte(1 << uint(r.Intn(8)))
			}
			return string(b), "bit-flips"
		}
	case 19:
		return strings.ReplaceAll(strings.ReplaceAll(x, "<w:tblGrid>", "<w:tblGridX>"), "</w:tblGrid>", "</w:tblGridX>"), "hide-tblGrid"
	case 20:
		// rows with different numbers of cells
		return strings.Replace(x, "</w:tc></w:tr>", "</w:tc><w:tc><w:p/></w:tc><w:tc><w:p/></w:tc></w:tr>", 1), "ragged-row"
	case 21:
		span := []string{"3", "3", "0", "-2", "64", "50000000", "99999999999999999999", "x"}[r.Intn(8)]
		if !strings.Contains(x, "<w:tc>") {
			x = strings.Replace(x, "<w:body>", "<w:body><w:tbl><w:tr><w:tc><w:p/></w:tc><w:tc><w:p/></w:tc></w:tr><w:tr><w:tc><w:p/></w:tc><w:tc><w:p/></w:tc></w:tr></w:tbl>", 1)
		}
		if r.Bool() {
			x = strings.ReplaceAll(strings.ReplaceAll(x, "<w:tblGrid>", "<w:tblGridX>"), "</w:tblGrid>", "</w:tblGridX>")
		}
		return strings.Replace(x, "<w:tc>", "<w:tc><w:tcPr><w:gridSpan w:val=\""+span+"\"/><w:vMerge/></w:tcPr>", r.Range(1, 3)), "merge-markers"
	case 28:
		// numbers far outside what a producer writes, wherever a number stands
		re := regexp.MustCompile(`w:(val|w|ilvl|id|left|right|h)="-?[0-9]+"`)
		big := []string{"50000000", "99999999999999999999", "-50000000", "2147483648", "0"}[r.Intn(5)]
		n := 0
		every := r.Range(1, 4)
		return re.ReplaceAllStringFunc(x, func(m string) string {
			n++
			if n%every != 0 {
				return m
			}
			return m[:strings.Index(m, "=")] + `="` + big + `"`
		}), "huge-numbers"
	case 22:
		return strings.ReplaceAll(x, "<w:p>", "<w:p><w:pPr></w:pPr>"), "empty-pPr"
	case 23:
		re := regexp.MustCompile(`(?s)<w:tc>.*?</w:tc>`)
		return re.ReplaceAllString(x, "<w:tc></w:tc>"), "cells-without-paragraph"
	case 24:
		re := regexp.MustCompile(`(?s)<w:tr>.*?</w:tr>`)
		return re.ReplaceAllString(x, "<w:tr></w:tr>"), "rows-without-cells"
	case 25:
		return strings.ReplaceAll(x, "<w:r>", "<w:r><w:rPr><w:b w:val=\"\"/><w:sz/><w:color/><w:rFonts/><w:u/></w:rPr>"), "valueless-run-props"
	case 26:
		// drawings the library's own writer never produces: no inline/anchor child, or only a compatibility wrapper
		bare := []string{"<w:r><w:drawing/></w:r>", "<w:r><w:drawing></w:drawing></w:r>",
			`<w:r><w:drawing><mc:AlternateContent xmlns:mc="http://schemas.openxmlformats.org/markup-compatibility/2006"><mc:Choice Requires="wps"/><mc:Fallback/></mc:AlternateContent></w:drawing></w:r>`,
			`<w:r><w:drawing><wp:inline xmlns:wp="http://schemas.openxmlformats.org/drawingml/2006/wordprocessingDrawing"/></w:drawing></w:r>`,
			`<w:r><w:drawing><wp:anchor xmlns:wp="http://schemas.openxmlformats.org/drawingml/2006/wordprocessingDrawing"/></w:drawing></w:r>`}[r.Intn(5)]
		if strings.Contains(x, "</w:p>") {
			return strings.Replace(x, "</w:p>", bare+"</w:p>", r.Range(1, 2)), "bare-drawing"
		}
		return strings.Replace(x, "<w:body>", "<w:body><w:p>"+bare+"</w:p>", 1), "bare-drawing"
	case 27:
		return strings.Replace(x, "<w:body>", "<w:body>"+[]string{"<w:tbl/>", "<w:tbl><w:tblPr/><w:tblGrid/></w:tbl>", "<w:sdt><w:sdtContent><w:tbl/></w:sdtContent></w:sdt>", "<w:sdt/>", "<w:p/><w:sectPr/><w:p/>"}[r.Intn(5)], 1), "empty-containers"
	}
	return x, "noop"
}

const nsWConst = "http://schemas.openxmlformats.org/wordprocessingml/2006/main"

// normalisePrefix rewrites a foreign main part to the w: prefix so that string-level mutations apply (only used for mutation bases).
func mutateInput(r *rng.R, workDir string) (data []byte, desc []string) {
	names, parts, origin := basePackage(r, workDir)
	desc = append(desc, "base="+origin)
	parts2 := map[string][]byte{}
	for k, v := range parts {
		parts2[k] = v
	}
	nm := r.Range(1, 3)
	for i := 0; i < nm; i++ {
		switch r.Intn(12) {
		default: // mutate an XML part, mostly the main part
			target := "word/document.xml"
			if r.Chance(1, 3) {
				var xmls []string
				for _, n := range names {
					if opc.IsXMLName(n) {
						xmls = append(xmls, n)
					}
				}
				sort.Strings(xmls)
				if len(xmls) > 0 {
					target = xmls[r.Intn(len(xmls))]
				}
			}
			nx, class := mutateXML(r, string(parts2[target]))
			parts2[target] = []byte(nx)
			desc = append(desc, class+"@"+opc.Class(target))
		case 8:
			if len(names) > 0 {
				k := r.Intn(len(names))
				desc = append(desc, "drop-part@"+opc.Class(names[k]))
				delete(parts2, names[k])
				names = append(append([]string{}, names[:k]...), names[k+1:]...)
			}
		case 9:
			if len(names) > 0 {
				n := names[r.Intn(len(names))]
				names = append(names, n)
				desc = append(desc, "duplicate-entry@"+opc.Class(n))
			}
		case 10:
			names = append(names, "word/", "emptydir/")
			parts2["word/"] = nil
			parts2["emptydir/"] = nil
			desc = append(desc, "directory-entries")
		}
	}
	data = zipParts(names, parts2)
	if r.Chance(1, 25) && len(names) > 0 {
		// one entry whose directory record declares an uncompressed size it does not have (2^32 .. 2^63, a ZIP64 record):
		// what an archive claims about itself is input like everything else
		victim := names[r.Intn(len(names))]
		claimed := []uint64{1 << 32, 1 << 40, 1 << 48, 1 << 50, 1 << 62, 1<<63 + 12345}[r.Intn(6)]
		data = zipPartsLying(names, parts2, victim, claimed)
		desc = append(desc, fmt.Sprintf("declared-size-2^%d@%s", bits.Len64(claimed)-1, opc.Class(victim)))
	}
	switch r.Intn(14) {
	case 0:
		if len(data) > 0 {
			data = data[:r.Intn(len(data))]
			desc = append(desc, "zip-truncated")
		}
	case 1:
		for i := 0; i < r.Range(1, 6) && len(data) > 0; i++ {
			data[r.Intn(len(data))] ^= byte(1 << uint(r.Intn(8)))
		}
		desc = append(desc, "zip-bit-flips")
	case 2:
		if r.Chance(1, 3) {
			data = []byte(gen.HostileString(r))
			desc = append(desc, "not-a-zip")
		}
	}
	return data, desc
}

// postOpen exercises accessors, one edit of each family and ToBytes on an opened document.
func postOpen(res *core.Result, d *document.Document, r *rng.R, workDir string) {
	step := func(name string, f func()) bool {
		if c := core.Catch(f); c != nil {
			res.Add("post-open/"+name+"/"+c.Key(), fmt.Sprintf("%s panicked on a successfully opened document: %s", name, c.Msg), c.Stack)
			return false
		}
		res.Count("post_open_steps", 1)
		return true
	}
	if d.Body == nil {
		res.Add("open/nil-body", "Open returned a document whose Body is nil")
		return
	}
	var tables []*document.Table
	step("GetParagraphs", func() { d.Body.GetParagraphs() })
	// the statistics are computed from the document as it was opened (and once more after the edits below)
	step("UpdateStatistics", func() { d.UpdateStatistics(); d.GetDocumentProperties() })
	step("GetTables", func() { tables = d.Body.GetTables() })
	step("GetPageSettings", func() { d.GetPageSettings() })
	step("ListHeadings", func() { d.ListHeadings(); d.GetHeadingCount() })
	step("GetDocumentProperties", func() { d.GetDocumentProperties() })
	step("GetStyleManager", func() {
		if sm := d.GetStyleManager(); sm != nil {
			sm.GetAllStyles()
			sm.GetStyleWithInheritance("Heading1")
		}
	})
	step("ExportToString", func() { markdown.NewExporter(markdown.DefaultExportOptions()).ExportToString(d, nil) })
	for ti, t := range tables {
		if ti >= 3 {
			break
		}
		t := t
		step("Table.readers", func() {
			rc := t.GetRowCount()
			cc := t.GetColumnCount()
			for i := -1; i <= rc && i < 6; i++ {
				for j := -1; j <= cc && j < 6; j++ {
					t.GetCellText(i, j)
					t.GetCell(i, j)
					t.IsCellMerged(i, j)
					t.GetMergedCellInfo(i, j)
					t.GetCellFormat(i, j)
					t.GetCellParagraphs(i, j)
					t.GetNestedTables(i, j)
					t.GetCellTextDirection(i, j)
				}
				t.GetRowHeight(i)
				t.IsRowHeader(i)
				t.IsRowKeepTogether(i)
			}
			t.GetTableLayout()
			t.GetTableBreakInfo()
			it := t.NewCellIterator()
			for k := 0; it.HasNext() && k < 500; k++ {
				if _, err := it.Next(); err != nil {
					break
				}
			}
			it.Total()
			it.Progress()
			t.ForEach(func(int, int, *document.TableCell, string) error { return nil })
			t.ForEachInRow(0, func(int, *document.TableCell, string) error { return nil })
			t.ForEachInColumn(0, func(int, *document.TableCell, string) error { return nil })
			t.GetCellRange(0, 0, rc-1, cc-1)
			t.FindCellsByText("a", false)
		})
		step("SetCellText", func() { t.SetCellText(0, 0, "edited"); t.SetCellText(t.GetRowCount()-1, t.GetColumnCount()-1, "e2") })
		step("InsertRow", func() { t.InsertRow(0, nil); t.AppendRow([]string{"a"}) })
		step("InsertColumn", func() { t.InsertColumn(0, nil, 1000); t.AppendColumn(nil, 1000) })
		step("MergeCellsHorizontal", func() { t.MergeCellsHorizontal(0, 0, 1) })
		step("MergeCellsVertical", func() { t.MergeCellsVertical(0, 1, 0) })
		step("UnmergeCells", func() { t.UnmergeCells(0, 0) })
		step("DeleteColumn", func() { t.DeleteColumn(0) })
		step("DeleteRow", func() { t.DeleteRow(0) })
		step("Table.look", func() {
			t.SetCellFormat(0, 0, &document.CellFormat{BackgroundColor: "FFFF00"})
			t.SetRowHeight(0, &document.RowHeightConfig{Height: 20, Rule: "exact"})
			t.ApplyTableStyle(&document.TableStyleConfig{Template: document.TableStyleTemplateGrid})
			t.SetTableBorders(&document.TableBorderConfig{Top: &document.BorderConfig{Style: "single", Width: 4, Color: "000000"}})
			t.SetCellShading(0, 0, &document.ShadingConfig{Pattern: "clear", BackgroundColor: "EEEEEE"})
			t.SetAlternatingRowColors("EEEEEE", "FFFFFF")
			t.SetHeaderRows(0, 0)
		})
		step("CopyTable", func() { t.CopyTable() })
		step("AddNestedTable", func() { t.AddNestedTable(0, 0, &document.TableConfig{Rows: 1, Cols: 1, Width: 1000}) })
		step("AddCellImage", func() {
			im := gen.MakeImage("png", 77, 3, 3)
			d.AddCellImageFromData(t, 0, 0, im.Data, 10)
		})
	}
	step("AddParagraph", func() { d.AddParagraph("appended").SetAlignment(document.AlignCenter) })
	step("AddHeader", func() {
		d.AddHeader(document.HeaderFooterTypeDefault, "h")
		d.AddFooterWithPageNumber(document.HeaderFooterTypeFirst, "f", true)
	})
	step("SetPageMargins", func() {
		d.SetPageMargins(10, 10, 10, 10)
		d.SetPageOrientation(document.OrientationLandscape)
		d.SetPageSize(document.PageSizeA5)
		d.SetDocGrid(document.DocGridLines, 312, 0)
	})
	var info *document.ImageInfo
	step("AddImageFromData", func() {
		im := gen.MakeImage("jpeg", 78, 4, 4)
		info, _ = d.AddImageFromData(im.Data, "p.jpg", document.ImageFormatJPEG, 4, 4, nil)
	})
	if info != nil {
		// the picture setters look the picture up among all drawings of the opened body
		step("SetImageAlignment", func() { d.SetImageAlignment(info, document.AlignCenter) })
		step("ResizeImage", func() { d.ResizeImage(info, &document.ImageSize{Width: 20, KeepAspectRatio: true}) })
		step("SetImagePosition", func() {
			d.SetImagePosition(info, document.ImagePositionFloatLeft, 1, 1)
			d.SetImageWrapText(info, document.ImageWrapSquare)
		})
		step("SetImageAltText", func() { d.SetImageAltText(info, "alt"); d.SetImageTitle(info, "title") })
	}
	step("AddListItem", func() { d.AddListItem("li", nil); d.AddFootnote("t", "n") })
	// the TOC functions first on the controls the package came with, then on one the library generates
	step("UpdateTOC", func() { d.UpdateTOC() })
	step("GenerateTOC", func() { d.GenerateTOC(nil); d.UpdateTOC() })
	step("AutoGenerateTOC", func() { d.AutoGenerateTOC(nil) })
	step("RemoveParagraphAt", func() { d.RemoveParagraphAt(0); d.RemoveElementAt(0) })
	step("SetTitle", func() { d.SetTitle("t"); d.UpdateStatistics() })
	step("Template", func() {
		e := document.NewTemplateEngine()
		if _, err := e.LoadTemplateFromDocument("t", d); err == nil {
			td := document.NewTemplateData()
			td.SetVariable("title", "v")
			e.RenderTemplateToDocument("t", td)
		}
	})
	var out []byte
	var err error
	if !step("ToBytes", func() { out, err = d.ToBytes() }) {
		return
	}
	if err != nil {
		res.Count("resave_errors", 1)
		return
	}
	p := opc.Read(out)
	res.Count("resaved_packages", 1)
	if main, pr := p.Tree("word/document.xml"); main == nil || len(pr) > 0 {
		for _, x := range pr {
			res.Add("resave/"+x.Rule+"/word/document.xml/in="+x.In, "regenerated main part of a successfully opened document is not well-formed: "+x.Detail)
		}
	}
	step("Save", func() {
		path := filepath.Join(workDir, "resave.docx")
		d.Save(path)
		os.Remove(path)
	})
}

func c06Case(c *core.Ctx) *core.Result {
	res := &core.Result{}
	r := caseRng(c)
	document.VerifResetGlobals()
	data, desc := mutateInput(r, c.WorkDir)
	inPath := filepath.Join(c.WorkDir, "c06-input.bin")
	os.WriteFile(inPath, data, 0644) // on disk before the call: survives a process death
	if c.Verbose {
		keep := filepath.Join(core.VerifDir(), "replays", fmt.Sprintf("C06-input-%d-%d.docx", c.Seed, c.Case))
		os.WriteFile(keep, data, 0644)
	}
	var d *document.Document
	var err error
	var cg *core.Caught
	if r.Bool() {
		cg = core.Catch(func() { d, err = document.OpenFromMemory(io.NopCloser(bytes.NewReader(data))) })
	} else {
		cg = core.Catch(func() { d, err = document.Open(inPath) })
	}
	res.Count("inputs_opened", 1)
	res.Sig = strings.Join(desc, "+") + fmt.Sprintf("#%x", h64(string(data)))
	res.Sample = map[string]interface{}{"case": c.Case, "mutations": desc, "bytes": len(data)}
	res.Nontrivial = true
	if cg != nil {
		res.Add("open/"+cg.Key(), "Open panicked: "+cg.Msg+" ; input mutations: "+strings.Join(desc, "+"), cg.Stack)
		return res
	}
	if err != nil {
		res.Count("open_rejected", 1)
		return res
	}
	if d == nil {
		res.Add("open/nil-document-nil-error", "Open returned (nil, nil)")
		return res
	}
	res.Count("open_accepted", 1)
	postOpen(res, d, r, c.WorkDir)
	for i := range res.Findings {
		res.Findings[i].Summary += " ; input mutations: " + strings.Join(desc, "+")
	}
	return res
}

func init() {
	core.Register(&core.Check{
		ID:    "C06",
		Level: "exploration",
		Rule: "valid packages (library-built and foreign) mutated structure-aware: per XML part truncation, tag deletion/duplication/swap/rename, elements in illegal places (tbl in run, sectPr in pPr/tc, tr in body), valueless or odd attributes, strict/empty/wrong namespaces, empty/missing/wrong-root parts, " +
			"nesting up to 5000 levels, 20000 repeated siblings, 1 MiB attribute, DOCTYPE entities, bit flips; per package dropped/duplicated/directory entries, truncated or bit-flipped ZIP, non-ZIP bytes. Each input is written to disk, opened (Open / OpenFromMemory alternately) in a child process under a watchdog; " +
			"every successful open is followed by the post-open script (all read accessors, one edit of each family, template load+render, Markdown export, ToBytes, Save) and the regenerated main part must be well-formed. Non-trivial: every case; distinct = mutation classes + input hash.",
		Cases:          func(t string) int { return tierN(t, 6000, 400000) },
		Run:            c06Case,
		Assume:         []string{"termination is decided by a wall-clock watchdog >=100x the typical case cost (a bounded version of 'terminates')", "stack depth is bounded by the Go runtime's own limit raised to 512 MiB for this check"},
		CrashIsFinding: true,
		CaseTimeoutS:   30,
		MinNontrivial:  500,
		MaxStackMB:     512,
	})
}
