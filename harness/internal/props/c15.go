package props

import (
	"bytes"
	"fmt"
	"io"
	"regexp"
	"strings"

	"github.com/zerx-lab/wordZero/pkg/document"

	"verifharness/internal/core"
	"verifharness/internal/gen"
	"verifharness/internal/opc"
	"verifharness/internal/rng"
)

// ---------- lists ----------

type listReq struct {
	token      string
	typ        document.ListType
	symbol     document.BulletType
	level      int
	start      int
	checkStart bool
	via        string
}

var c15ListTypes = []document.ListType{document.ListTypeBullet, document.ListTypeNumber, document.ListTypeDecimal, document.ListTypeLowerLetter, document.ListTypeUpperLetter, document.ListTypeLowerRoman, document.ListTypeUpperRoman}
var c15Bullets = []document.BulletType{document.BulletTypeDot, document.BulletTypeCircle, document.BulletTypeSquare, document.BulletTypeDash, document.BulletTypeArrow, "★", "->", "§ 1"}

func wantNumFmt(t document.ListType) string {
	switch t {
	case document.ListTypeBullet:
		return "bullet"
	case document.ListTypeNumber, document.ListTypeDecimal:
		return "decimal"
	}
	return string(t)
}

func levelClass(l int) string {
	switch {
	case l < 0:
		return "level<0"
	case l > 8:
		return "level>8"
	}
	return "level0-8"
}

// c15CheckLists resolves every list paragraph of a saved package to its level definition.
func c15CheckLists(res *core.Result, raw []byte, reqs []*listReq, stage, note string) {
	p := opc.Read(raw)
	root, pr := p.Tree("word/document.xml")
	if root == nil || len(pr) > 0 {
		res.Count("main_part_unreadable(C01)", 1)
		return
	}
	nroot, npr := p.Tree("word/numbering.xml")
	if len(reqs) > 0 && (nroot == nil || len(npr) > 0) {
		res.Add(stage+"/lists/numbering-part-missing-or-illformed", "list items exist but word/numbering.xml is missing or not well-formed", note)
		return
	}
	nums := map[string]string{}
	abstracts := map[string]*opc.Node{}
	if nroot != nil {
		for _, n := range nroot.ChildrenOf(opc.NsW, "num") {
			if a := n.Child(opc.NsW, "abstractNumId"); a != nil {
				if _, dup := nums[n.AttrW("numId")]; dup {
					res.Add(stage+"/lists/duplicate-numId", "numbering part defines w:num "+n.AttrW("numId")+" twice", note)
				}
				nums[n.AttrW("numId")] = a.AttrW("val")
			}
		}
		for _, a := range nroot.ChildrenOf(opc.NsW, "abstractNum") {
			if _, dup := abstracts[a.AttrW("abstractNumId")]; dup {
				res.Add(stage+"/lists/duplicate-abstractNumId", "numbering part defines w:abstractNum "+a.AttrW("abstractNumId")+" twice", note)
			}
			abstracts[a.AttrW("abstractNumId")] = a
		}
	}
	byToken := map[string]*opc.Node{}
	for _, para := range root.Find(opc.NsW, "p") {
		var sb strings.Builder
		for _, t := range para.Find(opc.NsW, "t") {
			sb.WriteString(t.Text)
		}
		txt := sb.String()
		if i := strings.Index(txt, "⟦"); i >= 0 {
			if j := strings.Index(txt[i:], "⟧"); j > 0 {
				byToken[txt[i:i+j+len("⟧")]] = para
			}
		}
	}
	for _, rq := range reqs {
		cls := wantNumFmt(rq.typ) + "/" + levelClass(rq.level)
		para := byToken[rq.token]
		if para == nil {
			res.Add(stage+"/lists/item-missing/"+rq.via, fmt.Sprintf("list item %s (%s) is not in the saved main part", rq.token, rq.via), note)
			continue
		}
		res.Count("list_items_resolved", 1)
		var numID, ilvl string
		if np := para.Find(opc.NsW, "numPr"); len(np) > 0 {
			if x := np[0].Child(opc.NsW, "numId"); x != nil {
				numID = x.AttrW("val")
			}
			if x := np[0].Child(opc.NsW, "ilvl"); x != nil {
				ilvl = x.AttrW("val")
			}
		}
		if numID == "" {
			res.Add(stage+"/lists/no-numPr/"+cls, fmt.Sprintf("list item %s has no w:numPr/w:numId", rq.token), note)
			continue
		}
		aid, ok := nums[numID]
		if !ok {
			res.Add(stage+"/lists/numId-undefined/"+cls, fmt.Sprintf("list item %s refers to numId %s which numbering.xml does not define", rq.token, numID), note)
			continue
		}
		abs := abstracts[aid]
		if abs == nil {
			res.Add(stage+"/lists/abstractNum-undefined/"+cls, fmt.Sprintf("numId %s of item %s refers to abstractNum %s which is not defined", numID, rq.token, aid), note)
			continue
		}
		var lvl *opc.Node
		for _, l := range abs.ChildrenOf(opc.NsW, "lvl") {
			if l.AttrW("ilvl") == ilvl {
				lvl = l
			}
		}
		if lvl == nil {
			res.Add(stage+"/lists/no-level-definition/"+cls, fmt.Sprintf("item %s (requested level %d) refers to ilvl %q which abstractNum %s does not define", rq.token, rq.level, ilvl, aid), note)
			continue
		}
		get := func(n string) string {
			if x := lvl.Child(opc.NsW, n); x != nil {
				return x.AttrW("val")
			}
			return "<absent>"
		}
		if g := get("numFmt"); g != wantNumFmt(rq.typ) {
			res.Add(stage+"/lists/numFmt/"+cls, fmt.Sprintf("item %s requested %s but its level has numFmt %s", rq.token, rq.typ, g), note)
		}
		if rq.typ == document.ListTypeBullet {
			if g := get("lvlText"); g != string(rq.symbol) {
				res.Add(stage+"/lists/bullet-symbol/"+levelClass(rq.level), fmt.Sprintf("item %s requested bullet %q but its level has lvlText %q", rq.token, rq.symbol, g), note)
			}
		} else if rq.checkStart {
			if g := get("start"); g != fmt.Sprint(rq.start) {
				res.Add(stage+"/lists/start/"+cls, fmt.Sprintf("item %s requested start %d but its level has w:start %s (%s)", rq.token, rq.start, g, rq.via), note)
			}
		}
		if rq.level >= 0 && rq.level <= 8 && ilvl != fmt.Sprint(rq.level) {
			res.Add(stage+"/lists/ilvl/"+cls, fmt.Sprintf("item %s requested level %d but has ilvl %s", rq.token, rq.level, ilvl), note)
		}
		res.Count("list_levels_compared", 1)
	}
}

func c15Lists(c *core.Ctx, r *rng.R) *core.Result {
	res := &core.Result{}
	d := document.New()
	var reqs []*listReq
	var log []string
	serial := 0
	tok := func() string { serial++; return fmt.Sprintf("⟦L%d-%d⟧", c.Case, serial) }
	lvl := func() int {
		switch r.Intn(8) {
		case 0:
			return []int{-1, 9, 10, 25}[r.Intn(4)]
		}
		return r.Range(0, 8)
	}
	starts := []int{0, 1, 5, 100}
	n := r.Range(2, tierN(c.Tier, 20, 50))
	cycles := 0
	note := func() string { return "calls: " + strings.Join(tail(log, 14), " ") }
	for i := 0; i < n && len(res.Findings) == 0; i++ {
		switch k := r.Intn(100); {
		case k < 35:
			rq := &listReq{token: tok(), typ: c15ListTypes[r.Intn(len(c15ListTypes))], symbol: c15Bullets[r.Intn(len(c15Bullets))], level: lvl(), start: starts[r.Intn(4)], checkStart: true, via: "AddListItem"}
			var cfg *document.ListConfig
			if r.Chance(1, 10) {
				rq.typ, rq.symbol, rq.level, rq.checkStart = document.ListTypeBullet, document.BulletTypeDot, 0, false
			} else {
				cfg = &document.ListConfig{Type: rq.typ, BulletSymbol: rq.symbol, StartNumber: rq.start, IndentLevel: rq.level}
			}
			if cg := core.Catch(func() { d.AddListItem(rq.token+" item", cfg) }); cg != nil {
				res.Add("lists/AddListItem/"+cg.Key(), "AddListItem panicked: "+cg.Msg, cg.Stack)
				break
			}
			reqs = append(reqs, rq)
			log = append(log, fmt.Sprintf("AddListItem(%s,%q,lvl%d,start%d)", rq.typ, rq.symbol, rq.level, rq.start))
		case k < 50:
			rq := &listReq{token: tok(), typ: document.ListTypeBullet, symbol: c15Bullets[r.Intn(len(c15Bullets))], level: lvl(), via: "AddBulletList"}
			if cg := core.Catch(func() { d.AddBulletList(rq.token+" b", rq.level, rq.symbol) }); cg != nil {
				res.Add("lists/AddBulletList/"+cg.Key(), "AddBulletList panicked: "+cg.Msg, cg.Stack)
				break
			}
			reqs = append(reqs, rq)
			log = append(log, fmt.Sprintf("AddBulletList(%q,lvl%d)", rq.symbol, rq.level))
		case k < 65:
			rq := &listReq{token: tok(), typ: c15ListTypes[1+r.Intn(6)], level: lvl(), start: 1, checkStart: true, via: "AddNumberedList"}
			if cg := core.Catch(func() { d.AddNumberedList(rq.token+" n", rq.level, rq.typ) }); cg != nil {
				res.Add("lists/AddNumberedList/"+cg.Key(), "AddNumberedList panicked: "+cg.Msg, cg.Stack)
				break
			}
			reqs = append(reqs, rq)
			log = append(log, fmt.Sprintf("AddNumberedList(%s,lvl%d)", rq.typ, rq.level))
		case k < 75:
			var items []document.ListItem
			var rqs []*listReq
			for j, m := 0, r.Range(1, 4); j < m; j++ {
				rq := &listReq{token: tok(), typ: c15ListTypes[r.Intn(len(c15ListTypes))], symbol: c15Bullets[r.Intn(len(c15Bullets))], level: lvl(), start: starts[r.Intn(4)], checkStart: true, via: "CreateMultiLevelList"}
				items = append(items, document.ListItem{Text: rq.token + " m", Level: rq.level, Type: rq.typ, BulletSymbol: rq.symbol, StartNumber: rq.start})
				rqs = append(rqs, rq)
			}
			if cg := core.Catch(func() { d.CreateMultiLevelList(items) }); cg != nil {
				res.Add("lists/CreateMultiLevelList/"+cg.Key(), "CreateMultiLevelList panicked: "+cg.Msg, cg.Stack)
				break
			}
			reqs = append(reqs, rqs...)
			log = append(log, fmt.Sprintf("CreateMultiLevelList(%d)", len(items)))
		case k < 80:
			core.Catch(func() { d.RestartNumbering(fmt.Sprint(r.Range(0, 6))) })
			log = append(log, "RestartNumbering")
		case k < 88:
			core.Catch(func() {
				d.AddParagraph("plain")
				d.AddFootnote("t", "n")
				d.AddHeader(document.HeaderFooterTypeDefault, "h")
				// a bystander document created and filled in between must not disturb this document's lists
				other := document.New()
				if r.Bool() {
					other.AddNumberedList("bystander", r.Range(0, 3), document.ListTypeLowerRoman)
					other.AddBulletList("bystander", 0, document.BulletTypeArrow)
				}
			})
			log = append(log, "OtherContent+bystander-document")
		default: // save / open cycle
			b, err := d.ToBytes()
			if err != nil {
				break
			}
			c15CheckLists(res, b, reqs, "saved", note())
			respelt := ""
			if r.Chance(1, 3) {
				// another producer loaded and saved the file in between: the numbering part comes back in another legal spelling
				var feats []string
				b, feats = gen.RespellPackage(r, b, "word/numbering.xml", "word/styles.xml")
				respelt = strings.Join(feats, ",")
				res.Count("reopens_of_a_respelt_package", 1)
			}
			d2, oerr := document.OpenFromMemory(io.NopCloser(bytes.NewReader(b)))
			if oerr != nil || d2 == nil || d2.Body == nil {
				res.Add("lists/reopen-failed", fmt.Sprintf("own output cannot be reopened: %v (%s)", oerr, respelt), note())
				break
			}
			d = d2
			cycles++
			log = append(log, "save+open("+respelt+")")
		}
	}
	if len(res.Findings) == 0 {
		if b, err := d.ToBytes(); err == nil {
			st := "saved"
			if cycles > 0 {
				st = "saved-after-reopen"
			}
			c15CheckLists(res, b, reqs, st, note())
		}
	}
	res.Nontrivial = len(reqs) >= 2 && res.Stats["list_levels_compared"] > 0
	res.Sig = "lists|" + strings.Join(log, ";")
	res.Sample = map[string]interface{}{"case": c.Case, "kind": "lists", "calls": tail(log, 12)}
	return res
}

// ---------- notes ----------

type noteDoc struct {
	d    *document.Document
	foot map[string]string // id -> token
	end  map[string]string
	name string
}

var noteMarkRe = regexp.MustCompile(`\[(尾注)?(\d+)\]$`)

// noteTexts: token -> the full text the note was given (per case; cases run one at a time in a worker).
var noteTexts = map[string]string{}

func c15CheckNotes(res *core.Result, nd *noteDoc, allTokens map[string]bool, stage, note string) {
	raw, err := nd.d.ToBytes()
	if err != nil {
		return
	}
	p := opc.Read(raw)
	for _, kind := range []struct {
		part, el string
		led      map[string]string
	}{{"word/footnotes.xml", "footnote", nd.foot}, {"word/endnotes.xml", "endnote", nd.end}} {
		root, pr := p.Tree(kind.part)
		if root == nil {
			if len(kind.led) > 0 {
				res.Add(stage+"/notes/part-missing/"+kind.el, fmt.Sprintf("%s holds %d %ss but has no %s", nd.name, len(kind.led), kind.el, kind.part), note)
			}
			continue
		}
		if len(pr) > 0 {
			res.Add(stage+"/notes/part-illformed/"+kind.el, kind.part+" is not well-formed", note)
			continue
		}
		res.Count("notes_parts_parsed", 1)
		count := map[string]int{}
		ids := map[string]int{}
		for _, n := range root.ChildrenOf(opc.NsW, kind.el) {
			ids[n.AttrW("id")]++
			var sb strings.Builder
			for _, t := range n.Find(opc.NsW, "t") {
				sb.WriteString(t.Text)
			}
			for tk := range allTokens {
				if strings.Contains(sb.String(), tk) {
					count[tk]++
					// the note carries the text it was given (what XML cannot carry comes back as U+FFFD)
					if want, ok := noteTexts[tk]; ok && kind.led != nil {
						res.Count("note_texts_compared", 1)
						if got := sb.String(); strings.TrimSpace(got) != strings.TrimSpace(xmlCarried(want)) {
							res.Add(stage+"/notes/text-differs/"+kind.el, fmt.Sprintf("the %s given the text %q reads %q", kind.el, want, got), note)
						}
					}
				}
			}
		}
		for id, nn := range ids {
			if nn > 1 {
				res.Add(stage+"/notes/duplicate-id/"+kind.el, fmt.Sprintf("%s has %d %ss with id %s", kind.part, nn, kind.el, id), note)
			}
		}
		mine := map[string]bool{}
		for _, tk := range kind.led {
			mine[tk] = true
			res.Count("notes_compared", 1)
			switch count[tk] {
			case 1:
			case 0:
				res.Add(stage+"/notes/note-missing/"+kind.el, fmt.Sprintf("%s of %s with text %s is not in %s", kind.el, nd.name, tk, kind.part), note)
			default:
				res.Add(stage+"/notes/note-duplicated/"+kind.el, fmt.Sprintf("%s with text %s appears %d times in %s", kind.el, tk, count[tk], kind.part), note)
			}
		}
		for tk, nn := range count {
			if !mine[tk] && nn > 0 {
				res.Add(stage+"/notes/foreign-or-removed-note-present/"+kind.el, fmt.Sprintf("%s of %s contains a %s (%s) that was removed or belongs to another document", kind.part, nd.name, kind.el, tk), note)
			}
		}
	}
	var fc, ec int
	if cg := core.Catch(func() { fc, ec = nd.d.GetFootnoteCount(), nd.d.GetEndnoteCount() }); cg != nil {
		res.Add(stage+"/notes/count/"+cg.Key(), "Get*noteCount panicked: "+cg.Msg, cg.Stack)
		return
	}
	if fc != len(nd.foot) {
		res.Add(stage+"/notes/footnote-count", fmt.Sprintf("GetFootnoteCount of %s = %d, the document holds %d", nd.name, fc, len(nd.foot)), note)
	}
	if ec != len(nd.end) {
		res.Add(stage+"/notes/endnote-count", fmt.Sprintf("GetEndnoteCount of %s = %d, the document holds %d", nd.name, ec, len(nd.end)), note)
	}
	res.Count("note_counts_compared", 2)
}

func c15Notes(c *core.Ctx, r *rng.R) *core.Result {
	res := &core.Result{}
	nDocs := 1
	if r.Chance(1, 2) {
		nDocs = r.Range(2, 3)
	}
	var docs []*noteDoc
	for i := 0; i < nDocs; i++ {
		docs = append(docs, &noteDoc{d: document.New(), foot: map[string]string{}, end: map[string]string{}, name: fmt.Sprintf("document %d of %d", i+1, nDocs)})
	}
	tokens := map[string]bool{}
	noteTexts = map[string]string{}
	var log []string
	serial := 0
	n := r.Range(3, tierN(c.Tier, 24, 60))
	adds := 0
	note := func() string { return "calls: " + strings.Join(tail(log, 16), " ") }
	lastMark := func(d *document.Document) (string, bool) {
		ps := d.Body.GetParagraphs()
		if len(ps) == 0 {
			return "", false
		}
		p := ps[len(ps)-1]
		var sb strings.Builder
		for _, run := range p.Runs {
			sb.WriteString(run.Text.Content)
		}
		m := noteMarkRe.FindStringSubmatch(sb.String())
		if m == nil {
			return "", false
		}
		return m[2], true
	}
	for i := 0; i < n && len(res.Findings) == 0; i++ {
		di := r.Intn(len(docs))
		nd := docs[di]
		st := "one-document"
		if nDocs > 1 {
			st = "several-documents"
		}
		switch k := r.Intn(100); {
		case k < 50: // add
			serial++
			tk := fmt.Sprintf("⟦N%d-%d⟧", c.Case, serial)
			end := r.Chance(1, 3)
			// the note text: the token, then text of every kind XML can carry - also characters without a glyph of their own
			// (ideographic and no-break blanks, joiners, direction marks, soft hyphen), which are text like any other
			full := tk + " " + gen.SafeString(r)
			if r.Chance(1, 3) {
				full += []string{"第一章\u3000绪论", "10\u00a0km", "👨\u200d👩\u200d👧", "a\u200eb\u200fc", "co\u00adoperate", "x\u202fy", "zero\u200cwidth", "\ufeffbom inside"}[r.Intn(8)]
			}
			if r.Chance(1, 8) {
				full += []string{"ctl\x01char", "vt\x0bff\x0c", "bad\xffutf8", "bell\x07"}[r.Intn(4)] // what XML cannot carry: replaced or refused, never half done
			}
			noteTexts[tk] = full
			elementsBefore := len(nd.d.Body.Elements)
			var err error
			variant := "AddFootnote"
			cg := core.Catch(func() {
				switch {
				case end:
					variant = "AddEndnote"
					err = nd.d.AddEndnote("text "+gen.Word(r, 1, 4), full)
				case r.Chance(1, 4):
					variant = "AddFootnoteToRun"
					p := nd.d.AddParagraph("run with note")
					err = nd.d.AddFootnoteToRun(&p.Runs[0], full)
				default:
					err = nd.d.AddFootnote("text "+gen.Word(r, 1, 4), full)
				}
			})
			log = append(log, fmt.Sprintf("%s@%d", variant, di))
			if cg != nil {
				res.Add("notes/"+variant+"/"+cg.Key(), variant+" panicked: "+cg.Msg, cg.Stack)
				break
			}
			if err != nil {
				res.Count("note_add_errors", 1)
				// a refused note leaves nothing behind: no reference mark in the body, no change of the counts
				grew := len(nd.d.Body.Elements) - elementsBefore
				if variant == "AddFootnoteToRun" {
					grew-- // the paragraph the harness itself added for the run
				}
				if grew != 0 {
					res.Add(st+"/notes/refused-note-left-its-mark/"+variant, fmt.Sprintf("%s returned an error (%v) but the body has %d more element(s): the reference mark of a note that does not exist", variant, err, grew), note())
				}
				break
			}
			id, ok := lastMark(nd.d)
			if !ok {
				res.Inconcl = "harness: cannot read the note mark of the paragraph just added"
				return res
			}
			tokens[tk] = true
			if end {
				if _, dup := nd.end[id]; dup {
					res.Add(st+"/notes/id-reused/endnote", fmt.Sprintf("endnote id %s was handed out twice in %s", id, nd.name), note())
				}
				nd.end[id] = tk
			} else {
				if _, dup := nd.foot[id]; dup {
					res.Add(st+"/notes/id-reused/footnote", fmt.Sprintf("footnote id %s was handed out twice in %s", id, nd.name), note())
				}
				nd.foot[id] = tk
			}
			adds++
		case k < 70: // remove
			end := r.Chance(1, 3)
			led := nd.foot
			if end {
				led = nd.end
			}
			id := fmt.Sprint(r.Range(0, 12))
			if len(led) > 0 && r.Chance(3, 4) {
				for k := range led {
					id = k
					break
				}
			}
			_, exists := led[id]
			var err error
			cg := core.Catch(func() {
				if end {
					err = nd.d.RemoveEndnote(id)
				} else {
					err = nd.d.RemoveFootnote(id)
				}
			})
			log = append(log, fmt.Sprintf("Remove(end=%v,id=%s,exists=%v)@%d", end, id, exists, di))
			if cg != nil {
				res.Add("notes/Remove/"+cg.Key(), "Remove*note panicked: "+cg.Msg, cg.Stack)
				break
			}
			switch {
			case exists && err != nil:
				res.Add(st+"/notes/remove-existing-fails", fmt.Sprintf("removing note %s of %s failed: %v", id, nd.name, err), note())
			case !exists && err == nil:
				res.Add(st+"/notes/remove-of-absent-id-succeeds", fmt.Sprintf("removing note id %s, which %s does not hold, reported success", id, nd.name), note())
			case exists:
				delete(led, id)
			}
		case k < 80:
			core.Catch(func() { nd.d.AddParagraph("plain"); nd.d.AddBulletList("b", 0, document.BulletTypeDot) })
			log = append(log, fmt.Sprintf("OtherContent@%d", di))
		case k < 90:
			c15CheckNotes(res, nd, tokens, st, note())
		default: // save / open
			b, err := nd.d.ToBytes()
			if err != nil {
				break
			}
			// in between another producer may have loaded and saved the file, writing the notes and numbering parts in its own
			// (legal) spelling
			respelt := ""
			if r.Chance(1, 3) {
				var feats []string
				b, feats = gen.RespellPackage(r, b, "word/footnotes.xml", "word/endnotes.xml", "word/numbering.xml")
				respelt = strings.Join(feats, ",")
				res.Count("reopens_of_a_respelt_package", 1)
			}
			d2, oerr := document.OpenFromMemory(io.NopCloser(bytes.NewReader(b)))
			if oerr != nil || d2 == nil || d2.Body == nil {
				res.Add("notes/reopen-failed", fmt.Sprintf("own output cannot be reopened: %v (%s)", oerr, respelt), note())
				break
			}
			nd.d = d2
			log = append(log, fmt.Sprintf("save+open(%s)@%d", respelt, di))
			c15CheckNotes(res, nd, tokens, st+"/reopened", note())
		}
	}
	for _, nd := range docs {
		if len(res.Findings) == 0 {
			st := "one-document"
			if nDocs > 1 {
				st = "several-documents"
			}
			c15CheckNotes(res, nd, tokens, st, note())
		}
	}
	res.Nontrivial = adds >= 2 && res.Stats["notes_compared"] > 0
	res.Sig = "notes|" + strings.Join(log, ";")
	res.Sample = map[string]interface{}{"case": c.Case, "kind": "notes", "documents": nDocs, "calls": tail(log, 12)}
	return res
}

// ---------- table of contents ----------

type headingRec struct {
	token string
	text  string
	level int
}

type tocEntry struct {
	text  string
	level int
}

// tocEntries reads the entries of every TOC content control of the saved main part.
func tocEntries(raw []byte) (tocs [][]tocEntry, ok bool) {
	p := opc.Read(raw)
	root, pr := p.Tree("word/document.xml")
	if root == nil || len(pr) > 0 {
		return nil, false
	}
	body := root.Child(opc.NsW, "body")
	if body == nil {
		return nil, false
	}
	for _, sdt := range body.ChildrenOf(opc.NsW, "sdt") {
		isTOC := false
		for _, g := range sdt.Find(opc.NsW, "docPartGallery") {
			if strings.Contains(g.AttrW("val"), "Table of Contents") {
				isTOC = true
			}
		}
		content := sdt.Child(opc.NsW, "sdtContent")
		if !isTOC || content == nil {
			continue
		}
		var entries []tocEntry
		pending := ""
		hasPending := false
		for _, k := range content.Children {
			switch {
			case k.Is(opc.NsW, "sdt"):
				var sb strings.Builder
				for _, t := range k.Find(opc.NsW, "t") {
					sb.WriteString(t.Text)
				}
				pending, hasPending = sb.String(), true
			case k.Is(opc.NsW, "p"):
				lvl := 0
				if ps := k.Find(opc.NsW, "pStyle"); len(ps) > 0 {
					var v int
					fmt.Sscan(ps[0].AttrW("val"), &v)
					if v >= 13 && v <= 21 {
						lvl = v - 12
					}
					if strings.HasPrefix(strings.ToUpper(ps[0].AttrW("val")), "TOC") {
						fmt.Sscan(strings.TrimPrefix(strings.ToUpper(ps[0].AttrW("val")), "TOC"), &lvl)
					}
				}
				if lvl == 0 {
					continue
				}
				txt := pending
				if !hasPending {
					for _, t := range k.Find(opc.NsW, "t") {
						if strings.TrimSpace(t.Text) != "" {
							txt = t.Text
							break
						}
					}
				}
				entries = append(entries, tocEntry{text: txt, level: lvl})
				pending, hasPending = "", false
			}
		}
		tocs = append(tocs, entries)
	}
	return tocs, true
}

func c15TOC(c *core.Ctx, r *rng.R) *core.Result {
	res := &core.Result{}
	d := document.New()
	var heads []*headingRec
	var log []string
	serial := 0
	numericHeadingIDs := false
	if r.Chance(1, 6) {
		// a document of another producer (WPS Office and templates made with it): the heading styles have numeric ids, "2" is
		// the style named "heading 1" and so on up to "10" = "heading 9"; what makes a paragraph a heading of level n is that
		// its style is the one named "heading n"
		var st, body strings.Builder
		st.WriteString(`<w:style w:type="paragraph" w:default="1" w:styleId="a1"><w:name w:val="Normal"/></w:style>`)
		for l := 1; l <= 9; l++ {
			st.WriteString(fmt.Sprintf(`<w:style w:type="paragraph" w:styleId="%d"><w:name w:val="heading %d"/><w:basedOn w:val="a1"/><w:pPr><w:outlineLvl w:val="%d"/></w:pPr></w:style>`, l+1, l, l-1))
		}
		for i, n := 0, r.Range(1, 6); i < n; i++ {
			serial++
			h := &headingRec{token: fmt.Sprintf("⟦T%d-%d⟧", c.Case, serial), level: r.Range(1, 9)}
			h.text = h.token + " opened"
			heads = append(heads, h)
			body.WriteString(fmt.Sprintf(`<w:p><w:pPr><w:pStyle w:val="%d"/></w:pPr><w:r><w:t>%s</w:t></w:r></w:p><w:p><w:r><w:t>text</w:t></w:r></w:p>`, h.level+1, h.text))
		}
		raw := gen.MinimalPackage(func(m map[string]string) {
			m["word/styles.xml"] = strings.Replace(m["word/styles.xml"], `<w:style w:type="paragraph" w:styleId="Normal"><w:name w:val="Normal"/></w:style>`, st.String(), 1)
			m["word/document.xml"] = strings.Replace(m["word/document.xml"], `<w:p><w:r><w:t>hello</w:t></w:r></w:p>`, body.String(), 1)
		})
		d2, err := document.OpenFromMemory(io.NopCloser(bytes.NewReader(raw)))
		if err != nil || d2 == nil || d2.Body == nil {
			res.Inconcl = fmt.Sprintf("harness: the package with numeric heading style ids does not open: %v", err)
			return res
		}
		d, numericHeadingIDs = d2, true
		log = append(log, fmt.Sprintf("Open(package-with-numeric-heading-ids,%d-headings)", len(heads)))
		res.Count("documents_with_numeric_heading_style_ids", 1)
	}
	requested := 0 // max level of the table of contents that currently exists (0 = none)
	note := func() string { return "calls: " + strings.Join(tail(log, 16), " ") }
	expect := func(max int) []tocEntry {
		var out []tocEntry
		for _, el := range d.Body.Elements {
			p, ok := el.(*document.Paragraph)
			if !ok {
				continue
			}
			for _, h := range heads {
				var sb strings.Builder
				for _, run := range p.Runs {
					sb.WriteString(run.Text.Content)
				}
				if strings.Contains(sb.String(), h.token) && h.level <= max {
					out = append(out, tocEntry{text: sb.String(), level: h.level})
				}
			}
		}
		return out
	}
	check := func(op string, max int) {
		b, err := d.ToBytes()
		if err != nil {
			return
		}
		tocs, ok := tocEntries(b)
		if !ok {
			res.Count("main_part_unreadable(C01)", 1)
			return
		}
		res.Count("toc_checks", 1)
		if len(tocs) != 1 {
			res.Add("toc/"+op+"/toc-count", fmt.Sprintf("after %s the document has %d table-of-contents controls, expected 1", op, len(tocs)), note())
			return
		}
		want := expect(max)
		got := tocs[0]
		res.Count("toc_entries_compared", int64(len(want)))
		if len(got) != len(want) {
			cls := "entries-missing"
			if len(got) > len(want) {
				cls = "extra-entries"
			}
			res.Add("toc/"+op+"/"+cls, fmt.Sprintf("after %s (max level %d): %d entries, expected %d: got %v want %v", op, max, len(got), len(want), got, want), note())
			return
		}
		for i := range want {
			if got[i].level != want[i].level {
				res.Add("toc/"+op+"/entry-level", fmt.Sprintf("after %s: entry %d has level %d, heading has level %d (%q)", op, i, got[i].level, want[i].level, want[i].text), note())
				return
			}
			if got[i].text != want[i].text {
				res.Add("toc/"+op+"/entry-text-or-order", fmt.Sprintf("after %s: entry %d is %q, expected %q", op, i, got[i].text, want[i].text), note())
				return
			}
		}
	}
	n := r.Range(3, tierN(c.Tier, 24, 60))
	for i := 0; i < n && len(res.Findings) == 0; i++ {
		switch k := r.Intn(100); {
		case k < 45: // heading
			serial++
			h := &headingRec{token: fmt.Sprintf("⟦T%d-%d⟧", c.Case, serial), level: r.Range(1, 9)}
			h.text = h.token + " " + gen.SafeString(r)
			cg := core.Catch(func() {
				which := r.Intn(4)
				if numericHeadingIDs && r.Bool() {
					which = 4
				}
				switch which {
				case 4:
					// a heading in the document's own heading style
					p := d.AddParagraph(h.text)
					p.SetStyle(fmt.Sprint(h.level + 1))
				case 0:
					d.AddHeadingParagraph(h.text, h.level)
				case 1:
					d.AddHeadingParagraphWithBookmark(h.text, h.level, fmt.Sprintf("bm%d", serial))
				case 2:
					p := d.AddParagraph(h.text)
					p.SetStyle(fmt.Sprintf("Heading%d", h.level))
				case 3:
					p := d.AddHeadingParagraph(h.text, h.level)
					p.AddFormattedText(" tail", &document.TextFormat{Italic: true})
				}
			})
			log = append(log, fmt.Sprintf("Heading(l%d)", h.level))
			if cg != nil {
				res.Add("toc/heading/"+cg.Key(), "heading call panicked: "+cg.Msg, cg.Stack)
				break
			}
			heads = append(heads, h)
		case k < 60:
			core.Catch(func() { d.AddParagraph("body " + gen.Word(r, 1, 5)) })
			log = append(log, "Paragraph")
		case k < 75: // generate
			if requested != 0 {
				break
			}
			max := r.Range(1, 9)
			var cfg *document.TOCConfig
			if r.Chance(1, 5) {
				max = 3
			} else {
				cfg = &document.TOCConfig{Title: "Contents", MaxLevel: max, ShowPageNum: r.Bool(), UseHyperlink: r.Bool(), DotLeader: r.Bool()}
			}
			var err error
			op := "GenerateTOC"
			cg := core.Catch(func() {
				if r.Chance(1, 3) && len(heads) > 0 {
					op = "AutoGenerateTOC"
					err = d.AutoGenerateTOC(cfg)
				} else {
					err = d.GenerateTOC(cfg)
				}
			})
			log = append(log, fmt.Sprintf("%s(max%d)", op, max))
			if cg != nil {
				res.Add("toc/"+op+"/"+cg.Key(), op+" panicked: "+cg.Msg, cg.Stack)
				break
			}
			if err != nil {
				res.Count("toc_errors", 1)
				break
			}
			requested = max
			check(op, max)
		case k < 92: // update / regenerate
			if requested == 0 {
				break
			}
			if r.Chance(1, 4) && len(heads) > 0 {
				// regenerate in place: still one table of contents, now for the newly requested level
				max := r.Range(1, 9)
				var err error
				cg := core.Catch(func() {
					err = d.AutoGenerateTOC(&document.TOCConfig{Title: "Contents", MaxLevel: max, ShowPageNum: true})
				})
				log = append(log, fmt.Sprintf("AutoGenerateTOC-again(max%d)", max))
				if cg != nil {
					res.Add("toc/AutoGenerateTOC-again/"+cg.Key(), "AutoGenerateTOC panicked: "+cg.Msg, cg.Stack)
					break
				}
				if err != nil {
					res.Count("toc_errors", 1)
					break
				}
				requested = max
				check("AutoGenerateTOC-again", max)
				break
			}
			var err error
			cg := core.Catch(func() { err = d.UpdateTOC() })
			log = append(log, "UpdateTOC")
			if cg != nil {
				res.Add("toc/UpdateTOC/"+cg.Key(), "UpdateTOC panicked: "+cg.Msg, cg.Stack)
				break
			}
			if err != nil {
				res.Add("toc/UpdateTOC/fails-although-toc-exists", "UpdateTOC: "+err.Error(), note())
				break
			}
			check("UpdateTOC", requested)
			if len(res.Findings) == 0 && r.Bool() {
				// idempotence: a second update changes nothing
				b1, _ := d.ToBytes()
				if cg := core.Catch(func() { err = d.UpdateTOC() }); cg == nil && err == nil {
					b2, _ := d.ToBytes()
					t1, _ := tocEntries(b1)
					t2, _ := tocEntries(b2)
					if fmt.Sprint(t1) != fmt.Sprint(t2) {
						res.Add("toc/UpdateTOC/not-idempotent", fmt.Sprintf("a second UpdateTOC changed the entries: %v -> %v", t1, t2), note())
					}
					res.Count("idempotence_checks", 1)
					log = append(log, "UpdateTOC")
				}
			}
		case k < 96: // save and open: the table of contents and the level it was requested for come back with the document
			b, err := d.ToBytes()
			if err != nil {
				break
			}
			d2, oerr := document.OpenFromMemory(io.NopCloser(bytes.NewReader(b)))
			if oerr != nil || d2 == nil || d2.Body == nil {
				res.Add("toc/reopen-failed", fmt.Sprintf("own output cannot be reopened: %v", oerr), note())
				break
			}
			d = d2
			log = append(log, "save+open")
			res.Count("toc_reopens", 1)
		default:
			core.Catch(func() { d.AddTable(&document.TableConfig{Rows: 1, Cols: 2, Width: 4000}) })
			log = append(log, "Table")
		}
	}
	res.Nontrivial = len(heads) >= 2 && res.Stats["toc_checks"] > 0
	res.Sig = "toc|" + strings.Join(log, ";")
	res.Sample = map[string]interface{}{"case": c.Case, "kind": "toc", "calls": tail(log, 12)}
	return res
}

func init() {
	core.Register(&core.Check{
		ID:    "C15",
		Level: "exploration",
		Rule: "three kinds of cases. Lists: AddListItem/AddBulletList/AddNumberedList/CreateMultiLevelList over all list types, predefined and custom bullet symbols, levels -1..25, start numbers 0/1/5/100, RestartNumbering, other content, save+open cycles; every item carries a unique token and is resolved in the saved package numId -> w:num -> w:abstractNum -> w:lvl[ilvl]: numFmt, bullet symbol, start, ilvl. " +
			"Notes: 1-3 live documents, AddFootnote/AddEndnote/AddFootnoteToRun with unique note texts, Remove*note with held and absent ids, save+open; each document's notes part must hold exactly its own notes once, counts and removal results agree with the per-document ledger. " +
			"TOC: headings 1-9 through helpers and SetStyle, body text, tables, GenerateTOC/AutoGenerateTOC with MaxLevel 1-9, UpdateTOC (also twice): the entries of the single TOC control must be the headings up to the requested level in body order with their full text. Non-trivial: >=2 items/notes/headings and >=1 comparison.",
		Cases: func(t string) int { return tierN(t, 8000, 150000) },
		Run: func(c *core.Ctx) *core.Result {
			r := caseRng(c)
			document.VerifResetGlobals()
			switch c.Case % 3 {
			case 0:
				return c15Lists(c, r)
			case 1:
				return c15Notes(c, r)
			}
			return c15TOC(c, r)
		},
		Assume:        []string{"for levels outside 0-8 any level definition with the requested format is accepted (the library may clamp)", "headings with empty text and unknown list types are not generated", "consecutive items need not share a numId; page numbers and TOC styling are not compared"},
		CaseTimeoutS:  60,
		MinNontrivial: 400,
	})
}
