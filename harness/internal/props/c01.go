package props

import (
	"crypto/sha256"
	"fmt"
	"hash/fnv"
	"os"
	"path/filepath"
	"sort"
	"strings"

	"github.com/zerx-lab/wordZero/pkg/document"
	"github.com/zerx-lab/wordZero/pkg/markdown"

	"verifharness/internal/core"
	"verifharness/internal/gen"
	"verifharness/internal/opc"
	"verifharness/internal/rng"
)

func h64(s string) uint64 {
	h := fnv.New64a()
	h.Write([]byte(s))
	return h.Sum64()
}

func caseRng(c *core.Ctx) *rng.R { return rng.Derive(c.Seed, h64(c.Prop), uint64(c.Case)) }

func tierN(tier string, quick, thorough int) int {
	if tier == "thorough" {
		return thorough
	}
	return quick
}

// savedPackages serialises the document through both entry points and returns what was produced.
func savedPackages(res *core.Result, d *document.Document, workDir string, tag string) (pkgs []*opc.Package, raw [][]byte) {
	pkgs, raw, _ = savedPackagesHeld(res, d, workDir, tag)
	return
}

// savedPackagesHeld additionally returns the slice ToBytes handed out (nil if it failed): it belongs to the caller from then on.
func savedPackagesHeld(res *core.Result, d *document.Document, workDir string, tag string) (pkgs []*opc.Package, raw [][]byte, held []byte) {
	var b []byte
	var err error
	if c := core.Catch(func() { b, err = d.ToBytes() }); c != nil {
		res.Count("save_panics", 1)
		res.Add("ToBytes/"+c.Key(), "ToBytes panicked: "+c.Msg, c.Stack)
		return
	}
	if err == nil {
		pkgs = append(pkgs, opc.Read(b))
		raw = append(raw, b)
		held = b
		res.Count("packages_tobytes", 1)
	} else {
		res.Count("tobytes_errors", 1)
	}
	path := filepath.Join(workDir, tag+".docx")
	os.Remove(path)
	if c := core.Catch(func() { err = d.Save(path) }); c != nil {
		res.Add("Save/"+c.Key(), "Save panicked: "+c.Msg, c.Stack)
		return
	}
	if err == nil {
		if fb, rerr := os.ReadFile(path); rerr == nil {
			pkgs = append(pkgs, opc.Read(fb))
			raw = append(raw, fb)
			res.Count("packages_save", 1)
		}
	} else {
		res.Count("save_errors", 1)
	}
	os.Remove(path)
	return
}

func addProblems(res *core.Result, probs []opc.Problem, ctxNote string) {
	for _, p := range probs {
		res.Add(p.Key, p.Detail, ctxNote)
	}
}

func statsOf(res *core.Result, p *opc.Package) {
	res.Count("parts_parsed", int64(p.Stats.XMLParts))
	res.Count("parts_seen", int64(p.Stats.Parts))
	res.Count("relationships_checked", int64(p.Stats.Rels))
	res.Count("refs_resolved", int64(p.Stats.RefsResolved))
	res.Count("ids_resolved", int64(p.Stats.IDsResolved))
}

func kindsSig(k map[string]int) string {
	keys := make([]string, 0, len(k))
	for n := range k {
		keys = append(keys, n)
	}
	sort.Strings(keys)
	var b strings.Builder
	for _, n := range keys {
		fmt.Fprintf(&b, "%s=%d;", n, k[n])
	}
	return b.String()
}

func tail(xs []string, n int) []string {
	if len(xs) > n {
		return xs[len(xs)-n:]
	}
	return xs
}

// heldOutputs: byte slices ToBytes returned during a case. They are the caller's: at the end of the case, after all later library
// calls, each must still be the package it was when it was returned.
type heldOutputs struct {
	items []heldOutput
}

type heldOutput struct {
	b   []byte
	sum [32]byte
	at  string
}

func (h *heldOutputs) keep(b []byte, at string) {
	if b != nil {
		h.items = append(h.items, heldOutput{b, sha256.Sum256(b), at})
	}
}

func (h *heldOutputs) recheck(res *core.Result, rules func(*opc.Package) []opc.Problem, note string) {
	for _, it := range h.items {
		res.Count("held_outputs_rechecked", 1)
		if sha256.Sum256(it.b) == it.sum {
			continue
		}
		key := "held-output/changed-by-later-calls"
		if probs := rules(opc.Read(it.b)); len(probs) > 0 {
			key = "held-output/" + probs[0].Key
		}
		res.Add(key, "the bytes returned by ToBytes ("+it.at+") were modified by later library calls: the caller's package is no longer what it was given", note)
		return
	}
}

// scriptCase runs one generated script and applies the chosen package rules to everything it saves.
func scriptCase(c *core.Ctx, hostile bool, maxOps int, weights map[string]int, rules func(*opc.Package) []opc.Problem, minKinds int) *core.Result {
	res := &core.Result{}
	r := caseRng(c)
	// the process-wide registries are reset between cases so that a case is reproducible on its own
	document.VerifResetGlobals()
	s := NewScript(r, hostile, c.WorkDir)
	s.Weights = weights
	n := r.Range(4, maxOps)
	held := &heldOutputs{}
	// intermediate saves: split the script in up to three segments
	segs := r.Range(1, 3)
	for k := 0; k < segs && s.Panic == nil; k++ {
		s.Run(n/segs+1, nil)
		if s.Panic != nil {
			break
		}
		pkgs, _, hb := savedPackagesHeld(res, s.Doc, c.WorkDir, fmt.Sprintf("c%d-%d", c.Case, k))
		held.keep(hb, fmt.Sprintf("save %d", k+1))
		for _, p := range pkgs {
			addProblems(res, rules(p), "ops: "+strings.Join(tail(s.Log, 25), " "))
			statsOf(res, p)
		}
		checkExtras(c, s, res, rules, k)
	}
	held.recheck(res, rules, "ops: "+strings.Join(tail(s.Log, 25), " "))
	res.Count("api_calls", int64(len(s.Log)))
	res.Count("reopens", int64(s.Reopens))
	res.Count("template_renders", int64(s.Renders))
	if s.Panic != nil {
		res.Count("api_panics(document quarantined)", 1)
		if c.Verbose {
			res.Inconcl = "api panic: " + s.Panic.Msg + "\n" + s.Panic.Stack
		}
	}
	res.Nontrivial = len(s.Kinds) >= minKinds && res.Stats["parts_parsed"] > 0
	res.Sig = s.Sig()
	res.Sample = map[string]interface{}{"case": c.Case, "ops": tail(s.Log, 40), "reopens": s.Reopens, "renders": s.Renders}
	return res
}

var mdSnippets = []string{"# H1\n\n", "## H2 *em*\n\n", "para **bold** `code` ~~s~~\n\n", "- a\n- b\n  - c\n\n", "1. x\n2. y\n\n", "- [ ] t\n- [x] d\n\n", "> q\n> r\n\n",
	"```go\nfmt.Println(1)\n```\n\n", "    indented\n\n", "---\n\n", "| a | b |\n|:--|--:|\n| 1 | 2 |\n\n", "$x^2$ and $$\n\\frac{a}{b}\n$$\n\n", "[l](http://x) <http://y> ![i](none.png)\n\n", "text[^1]\n\n[^1]: note\n\n", "<div>html</div>\n\n", "a\\\nb  \nc\n\n"}

func mdOptions(r *rng.R) *markdown.ConvertOptions {
	o := markdown.DefaultOptions()
	o.EnableGFM, o.EnableTables, o.EnableTaskList, o.EnableMath, o.EnableFootnotes, o.GenerateTOC = r.Bool(), r.Bool(), r.Bool(), r.Bool(), r.Bool(), r.Bool()
	o.TOCMaxLevel = r.Range(0, 7)
	return o
}

func hostileMarkdown(r *rng.R) string {
	var b strings.Builder
	n := r.Range(1, 12)
	for i := 0; i < n; i++ {
		switch r.Intn(4) {
		case 0, 1:
			b.WriteString(r.Pick(mdSnippets))
		case 2:
			b.WriteString(gen.HostileString(r))
			b.WriteString("\n\n")
		case 3:
			b.WriteString(strings.Repeat("#", r.Range(1, 7)) + " " + gen.HostileString(r) + "\n\n")
		}
	}
	return b.String()
}

// markdownCase converts hostile Markdown through ConvertFile and checks the written package.
func markdownCase(c *core.Ctx, rules func(*opc.Package) []opc.Problem) *core.Result {
	res := &core.Result{}
	r := caseRng(c)
	document.VerifResetGlobals()
	md := hostileMarkdown(r)
	mdPath := filepath.Join(c.WorkDir, fmt.Sprintf("m%d.md", c.Case))
	outPath := filepath.Join(c.WorkDir, fmt.Sprintf("m%d.docx", c.Case))
	os.WriteFile(mdPath, []byte(md), 0644)
	defer os.Remove(mdPath)
	defer os.Remove(outPath)
	opts := mdOptions(r)
	var err error
	if cg := core.Catch(func() { err = markdown.NewConverter(opts).ConvertFile(mdPath, outPath, opts) }); cg != nil {
		res.Count("api_panics(document quarantined)", 1)
		return res
	}
	if err != nil {
		res.Count("convert_errors", 1)
		return res
	}
	fb, rerr := os.ReadFile(outPath)
	if rerr != nil {
		res.Add("ConvertFile/no-output", "ConvertFile returned nil but wrote no file")
		return res
	}
	p := opc.Read(fb)
	addProblems(res, rules(p), "markdown: "+fmt.Sprintf("%q", md))
	statsOf(res, p)
	res.Count("packages_convertfile", 1)
	res.Nontrivial = true
	res.Sig = "md:" + md
	res.Sample = map[string]interface{}{"case": c.Case, "markdown": md}
	return res
}

func init() {
	core.Register(&core.Check{
		ID:    "C01",
		Level: "exploration",
		Rule: "PRNG operation scripts over the public API (paragraph/table/image/header/footer/note/list/TOC/properties/page/math/style calls, hostile corpus strings, reopen and template-render steps), " +
			"each saved through ToBytes and Save up to 3 times, plus hostile Markdown through ConvertFile, plus harness-written foreign packages (own content-type defaults, arbitrary ids/prefixes/parts) that are opened and extended; every produced package is read by the independent OPC monitor (zip-readable, xml-wellformed, ns-unbound, content-types, main-part). " +
			"Thorough tier, case 0: the repository's own test suite and every program under examples/ are run in a scratch copy of the tree and every .docx they leave behind goes through the same monitor. A case is non-trivial if it executed >=3 distinct call kinds and at least one package was parsed; distinct = distinct call sequence.",
		Cases: func(t string) int { return tierN(t, 3200, 40000) },
		Run: func(c *core.Ctx) *core.Result {
			if c.Tier == "thorough" && c.Case == 0 {
				return repoProgramsCase(c, (*opc.Package).CheckC01)
			}
			if c.Case%8 == 7 {
				return markdownCase(c, (*opc.Package).CheckC01)
			}
			if c.Case%8 == 5 { // packages of other producers (their own content-type defaults, ids, parts), opened and extended
				return foreignExtendCase(c, (*opc.Package).CheckC01)
			}
			if c.Case%16 == 4 { // documents rendered from one template, extended alternately (pictures of different formats), saved at the end
				return renderSiblingsCase(c, (*opc.Package).CheckC01, map[string]int{"AddImageFromData": 30, "AddImageFromFile": 6, "Header/Footer": 8, "AddParagraph": 3, "Table.content": 6, "AddTable": 3, "Reopen": 0, "RenderAsTemplate": 0, "Notes": 4, "Properties": 3})
			}
			if c.Case%8 == 6 { // values landing in raw header/footer XML
				return scriptCase(c, true, 30, map[string]int{"Header/Footer": 30, "RenderAsTemplate": 14, "Reopen": 4}, (*opc.Package).CheckC01, 2)
			}
			return scriptCase(c, true, tierN(c.Tier, 40, 120), nil, (*opc.Package).CheckC01, 3)
		},
		Assume:        []string{"archive/zip and encoding/xml of the Go standard library are the trusted readers", "only calls that returned without panic contribute; a panicking call quarantines the document"},
		CaseTimeoutS:  300,
		MinNontrivial: 50,
		SelfTest:      selfTestOPC,
	})
	relWeights := map[string]int{"AddImageFromData": 12, "AddImageFromFile": 5, "Header/Footer": 16, "Notes": 10, "Lists": 8, "Properties": 5, "Reopen": 8, "RenderAsTemplate": 4, "Table.content": 12, "AddTable": 6,
		"Paragraph.setters": 3, "Table.look": 2, "Styles": 1, "TOC": 2, "PageSettings": 4}
	core.Register(&core.Check{
		ID:    "C02",
		Level: "exploration",
		Rule: "operation scripts biased to relationship-creating calls (body/cell/template images, every header/footer kind repeatedly, notes, lists, footnote config, properties) interleaved with save/open cycles, plus foreign packages with arbitrary pre-existing relationship ids (also without / with a strict-namespace styles relationship) that are opened and then extended, plus groups of documents rendered from one template document that are extended alternately and saved at the end; " +
			"every saved package goes through the relationship monitor (unique ids per .rels, internal targets exist, owner part, r:id/r:embed references resolve to the matching kind). Non-trivial: >=3 call kinds and >=1 relationship checked; distinct = distinct call sequence.",
		Cases: func(t string) int { return tierN(t, 4000, 60000) },
		Run: func(c *core.Ctx) *core.Result {
			if c.Tier == "thorough" && c.Case == 0 {
				return repoProgramsCase(c, (*opc.Package).CheckC02)
			}
			if c.Case%6 == 5 {
				return renderSiblingsCase(c, (*opc.Package).CheckC02, map[string]int{"AddImageFromData": 30, "Header/Footer": 10, "AddParagraph": 3, "Table.content": 8, "AddTable": 3, "Reopen": 0, "RenderAsTemplate": 0, "AddImageFromFile": 3, "Properties": 3})
			}
			if c.Case%3 == 2 {
				return foreignExtendCase(c, (*opc.Package).CheckC02)
			}
			res := scriptCase(c, false, tierN(c.Tier, 30, 80), relWeights, (*opc.Package).CheckC02, 3)
			res.Nontrivial = res.Nontrivial && res.Stats["relationships_checked"] > 0
			return res
		},
		Assume:        []string{"relationship types are compared by their last path segment", "ownership rule: styles/numbering/footnotes/endnotes/settings/header/footer/image belong to the main part's .rels, officeDocument/core/extended properties to _rels/.rels"},
		CaseTimeoutS:  300,
		MinNontrivial: 50,
		SelfTest:      selfTestOPC,
	})
	idWeights := map[string]int{"Styles": 14, "AddHeadingParagraph": 10, "Lists": 12, "Notes": 10, "TOC": 8, "Table.look": 10, "AddTable": 6, "Paragraph.setters": 8, "Reopen": 8, "Header/Footer": 2, "AddImageFromData": 1, "AddImageFromFile": 0, "Properties": 1}
	core.Register(&core.Check{
		ID:    "C13",
		Level: "exploration",
		Rule: "operation scripts biased to style creation/removal, styled content (headings, SetStyle, TOC entries, table style templates), lists and notes with intermediate saves and open/save cycles, plus Markdown conversion (Quote/CodeBlock styles) and foreign packages carrying their own styles/numbering that are extended; " +
			"every saved package: each pStyle/rStyle/tblStyle is defined in the styles part, each numId has w:num + w:abstractNum, each note reference id is in the notes part; styles defined through the style API must appear in the next save. Non-trivial: >=3 call kinds and >=1 id resolved.",
		Cases: func(t string) int { return tierN(t, 4000, 60000) },
		Run: func(c *core.Ctx) *core.Result {
			if c.Tier == "thorough" && c.Case == 0 {
				return repoProgramsCase(c, c13Rules)
			}
			switch c.Case % 6 {
			case 4:
				return markdownCase(c, c13Rules)
			case 5:
				return foreignExtendCase(c, c13Rules)
			}
			if c.Case%12 == 3 { // documents rendered from one template, each given its own styles, lists and notes
				return renderSiblingsCase(c, c13Rules, idWeights)
			}
			return c13ScriptCase(c, idWeights)
		},
		Assume:        []string{"existence of the id is checked, not the style's w:type", "SetStyle with an id the caller never defined is generated only for ids the library itself defines or that the script created"},
		CaseTimeoutS:  300,
		MinNontrivial: 50,
		SelfTest:      selfTestOPC,
	})
}

// c13ScriptCase adds the ledger "styles the API was told to define ⊆ styles in the next save".
func c13ScriptCase(c *core.Ctx, weights map[string]int) *core.Result {
	res := scriptCaseWithHook(c, false, tierN(c.Tier, 30, 80), weights, c13Rules, 3, func(s *Script, p *opc.Package, res *core.Result) {
		sm := s.Doc.GetStyleManager()
		if sm == nil {
			return
		}
		have := p.StyleIDs()
		for _, st := range sm.GetAllStyles() {
			if st == nil || !st.CustomStyle {
				continue
			}
			res.Count("api_styles_checked", 1)
			if !have[st.StyleID] {
				res.Add("api-style-missing-from-save/reopens="+fmt.Sprint(min2(s.Reopens, 1))+"/saves>1="+fmt.Sprint(s.Kinds["__saves"] > 1),
					fmt.Sprintf("style %q was created through the style API but is absent from the saved styles part", st.StyleID), "ops: "+strings.Join(tail(s.Log, 25), " "))
			}
		}
		ids := make([]string, 0, len(s.StyleMarks))
		for id := range s.StyleMarks {
			ids = append(ids, id)
		}
		sort.Strings(ids)
		for _, id := range ids {
			res.Count("api_style_changes_checked", 1)
			if got, ok := p.StyleRunColor(id); !ok || got != s.StyleMarks[id] {
				cls := "predefined"
				if strings.HasPrefix(id, "Cust") {
					cls = "custom"
				}
				res.Add("api-style-change-missing-from-save/"+cls+"/reopens="+fmt.Sprint(min2(s.Reopens, 1))+"/renders="+fmt.Sprint(min2(s.Renders, 1))+"/saves>1="+fmt.Sprint(s.Kinds["__saves"] > 1),
					fmt.Sprintf("style %q was given run colour %s through the registered style object, the saved styles part shows %q (defined=%v)", id, s.StyleMarks[id], got, ok), "ops: "+strings.Join(tail(s.Log, 25), " "))
			}
		}
	})
	res.Nontrivial = res.Nontrivial && res.Stats["ids_resolved"] > 0
	return res
}

func min2(a, b int) int {
	if a < b {
		return a
	}
	return b
}

// scriptCaseWithHook is scriptCase with a per-save callback.
func scriptCaseWithHook(c *core.Ctx, hostile bool, maxOps int, weights map[string]int, rules func(*opc.Package) []opc.Problem, minKinds int, hook func(*Script, *opc.Package, *core.Result)) *core.Result {
	res := &core.Result{}
	r := caseRng(c)
	document.VerifResetGlobals()
	s := NewScript(r, hostile, c.WorkDir)
	s.Weights = weights
	n := r.Range(4, maxOps)
	segs := r.Range(1, 3)
	held := &heldOutputs{}
	for k := 0; k < segs && s.Panic == nil; k++ {
		s.Run(n/segs+1, nil)
		if s.Panic != nil {
			break
		}
		s.Kinds["__saves"]++
		pkgs, _, hb := savedPackagesHeld(res, s.Doc, c.WorkDir, fmt.Sprintf("c%d-%d", c.Case, k))
		held.keep(hb, fmt.Sprintf("save %d", k+1))
		for _, p := range pkgs {
			addProblems(res, rules(p), "ops: "+strings.Join(tail(s.Log, 25), " "))
			statsOf(res, p)
			hook(s, p, res)
		}
		checkExtras(c, s, res, rules, k)
	}
	delete(s.Kinds, "__saves")
	held.recheck(res, rules, "ops: "+strings.Join(tail(s.Log, 25), " "))
	res.Count("api_calls", int64(len(s.Log)))
	res.Count("reopens", int64(s.Reopens))
	if s.Panic != nil {
		res.Count("api_panics(document quarantined)", 1)
	}
	res.Nontrivial = len(s.Kinds) >= minKinds && res.Stats["parts_parsed"] > 0
	res.Sig = s.Sig()
	res.Sample = map[string]interface{}{"case": c.Case, "ops": tail(s.Log, 40), "reopens": s.Reopens}
	return res
}

// checkExtras saves and inspects the further documents a script produced (batch renders).
func checkExtras(c *core.Ctx, s *Script, res *core.Result, rules func(*opc.Package) []opc.Problem, k int) {
	for xi, xd := range s.Extra {
		xp, _ := savedPackages(res, xd, c.WorkDir, fmt.Sprintf("c%d-%d-x%d", c.Case, k, xi))
		for _, p := range xp {
			probs := rules(p)
			for j := range probs {
				probs[j].Key += "/batch-render"
			}
			addProblems(res, probs, "a later document of a batch rendered with one data object ; ops: "+strings.Join(tail(s.Log, 25), " "))
			statsOf(res, p)
		}
		res.Count("batch_renders_checked", 1)
	}
	s.Extra = nil
}

// c13Rules: the package monitor's id rules for scripts in which the caller itself names base styles. A style the caller
// bases on an id no registry holds (an id from another document, a display name, a style of its own that it removed
// again) is the caller's doing and no clause of the statement - only a base the library chose must exist.
func c13Rules(p *opc.Package) []opc.Problem {
	var out []opc.Problem
	for _, pr := range p.CheckC13() {
		if pr.Key == "undefined-basedOn/<custom>" {
			continue
		}
		out = append(out, pr)
	}
	return out
}

// selfTestOPC: the monitor accepts a golden minimal package and rejects golden broken ones.
func selfTestOPC() error {
	good := gen.MinimalPackage(nil)
	p := opc.Read(good)
	if pr := p.CheckC01(); len(pr) != 0 {
		return fmt.Errorf("golden package rejected by C01 rules: %+v", pr[0])
	}
	if pr := p.CheckC02(); len(pr) != 0 {
		return fmt.Errorf("golden package rejected by C02 rules: %+v", pr[0])
	}
	if pr := p.CheckC13(); len(pr) != 0 {
		return fmt.Errorf("golden package rejected by C13 rules: %+v", pr[0])
	}
	type bad struct {
		name string
		mut  func(m map[string]string)
		rule func(*opc.Package) []opc.Problem
		want string
	}
	bads := []bad{
		{"ill-formed part", func(m map[string]string) {
			m["word/document.xml"] = strings.Replace(m["word/document.xml"], "</w:body>", "", 1)
		}, (*opc.Package).CheckC01, "xml-wellformed"},
		{"unbound prefix", func(m map[string]string) {
			m["word/document.xml"] = strings.Replace(m["word/document.xml"], "<w:body>", "<w:body><q:x/>", 1)
		}, (*opc.Package).CheckC01, "ns-unbound"},
		{"missing content type", func(m map[string]string) { m["word/media/image1.jpg"] = "x" }, (*opc.Package).CheckC01, "content-types/no-content-type"},
		{"dangling relationship", func(m map[string]string) {
			m["word/_rels/document.xml.rels"] = strings.Replace(m["word/_rels/document.xml.rels"], "</Relationships>", `<Relationship Id="rId9" Type="http://schemas.openxmlformats.org/officeDocument/2006/relationships/image" Target="media/none.png"/></Relationships>`, 1)
		}, (*opc.Package).CheckC02, "dangling-target"},
		{"duplicate id", func(m map[string]string) {
			m["word/_rels/document.xml.rels"] = strings.Replace(m["word/_rels/document.xml.rels"], "</Relationships>", `<Relationship Id="rId1" Type="http://schemas.openxmlformats.org/officeDocument/2006/relationships/styles" Target="styles.xml"/></Relationships>`, 1)
		}, (*opc.Package).CheckC02, "duplicate-id"},
		{"undefined style", func(m map[string]string) {
			m["word/document.xml"] = strings.Replace(m["word/document.xml"], "<w:p>", `<w:p><w:pPr><w:pStyle w:val="Nope"/></w:pPr>`, 1)
		}, (*opc.Package).CheckC13, "undefined-style"},
		{"two main parts", func(m map[string]string) {
			m["_rels/.rels"] = strings.Replace(m["_rels/.rels"], "</Relationships>", `<Relationship Id="rId7" Type="`+opc.RelDoc+`" Target="word/document.xml"/></Relationships>`, 1)
		}, (*opc.Package).CheckC01, "main-part/officeDocument-count"},
		{"content types outside their namespace", func(m map[string]string) {
			m["[Content_Types].xml"] = strings.Replace(m["[Content_Types].xml"], `xmlns="http://schemas.openxmlformats.org/package/2006/content-types"`, `xmlns=""`, 1)
		}, (*opc.Package).CheckC01, "content-types/not-the-content-types-vocabulary"},
		{"package relationships outside their namespace", func(m map[string]string) {
			m["_rels/.rels"] = strings.Replace(m["_rels/.rels"], `xmlns="http://schemas.openxmlformats.org/package/2006/relationships"`, `xmlns=""`, 1)
		}, (*opc.Package).CheckC01, "main-part/not-the-relationships-vocabulary"},
	}
	bads = append(bads,
		bad{"second XML declaration behind a byte order mark", func(m map[string]string) {
			m["word/document.xml"] = `<?xml version="1.0" encoding="UTF-8" standalone="yes"?>` + "\n\ufeff" + m["word/document.xml"]
		}, (*opc.Package).CheckC01, "xml-wellformed"},
		bad{"prefix bound to the empty namespace name", func(m map[string]string) {
			m["word/document.xml"] = strings.Replace(m["word/document.xml"], "<w:body>", `<w:body><a:x xmlns:a=""/>`, 1)
		}, (*opc.Package).CheckC01, "ns-unbound"},
		bad{"XML declaration after a comment", func(m map[string]string) {
			m["word/document.xml"] = "<!-- x -->" + m["word/document.xml"]
		}, (*opc.Package).CheckC01, "xml-wellformed"})
	// a byte order mark at the very start of a part is legal
	if pr := opc.Read(gen.MinimalPackage(func(m map[string]string) { m["word/document.xml"] = "\ufeff" + m["word/document.xml"] })).CheckC01(); len(pr) != 0 {
		return fmt.Errorf("golden package with a byte order mark rejected: %+v", pr[0])
	}
	for _, b := range bads {
		pk := opc.Read(gen.MinimalPackage(b.mut))
		found := false
		for _, pr := range b.rule(pk) {
			if strings.HasPrefix(pr.Key, b.want) {
				found = true
			}
		}
		if !found {
			return fmt.Errorf("golden broken package %q not rejected (want key prefix %s)", b.name, b.want)
		}
	}
	if pr := opc.Read([]byte("not a zip")).CheckC01(); len(pr) == 0 {
		return fmt.Errorf("non-zip accepted")
	}
	return nil
}
