package props

import (
	"fmt"
	"os"
	"path/filepath"
	"regexp"
	"runtime"
	"sort"
	"strings"
	"sync"
	"sync/atomic"
	"time"

	"github.com/anishathalye/porcupine"
	"github.com/zerx-lab/wordZero/pkg/document"

	"verifharness/internal/core"
	"verifharness/internal/deep"
	"verifharness/internal/gen"
	"verifharness/internal/rng"
)

// ---- what a render yields at the boundary ----

func renderOutcome(d *document.Document) (map[string]string, string) {
	b, err := d.ToBytes()
	if err != nil {
		return nil, "ToBytes: " + err.Error()
	}
	parts, ok := pkgCanonical(b)
	if !ok {
		return nil, "unreadable package"
	}
	return parts, ""
}

type tplDef struct {
	name    string
	content string // text templates
	parent  string
	isDoc   bool
	docSeed uint64
	version int
}

func c17Data(r *rng.R) *document.TemplateData {
	d := document.NewTemplateData()
	d.SetVariable("x", gen.Word(r, 1, 6))
	d.SetVariable("name", gen.SafeString(r))
	d.SetVariable("n", r.Range(0, 99))
	d.SetCondition("c", r.Bool())
	d.SetList("xs", []interface{}{gen.Word(r, 1, 4), gen.Word(r, 1, 4)})
	// items carry nested lists in the types a caller may naturally write them in
	nested := func() interface{} {
		switch r.Intn(4) {
		case 0:
			return []interface{}{map[string]interface{}{"m": gen.Word(r, 1, 3)}, map[string]interface{}{"m": gen.Word(r, 1, 3)}}
		case 1:
			return []map[string]interface{}{{"m": gen.Word(r, 1, 3)}, {"m": gen.Word(r, 1, 3)}}
		case 2:
			return []string{gen.Word(r, 1, 3), gen.Word(r, 1, 3)}
		}
		return nil
	}
	rows := []interface{}{map[string]interface{}{"k": gen.Word(r, 1, 4), "on": r.Bool(), "members": nested()}, map[string]interface{}{"k": gen.Word(r, 1, 4), "on": r.Bool(), "members": nested()}}
	if r.Chance(1, 3) {
		// field values that spell the placeholder of another field of the same item: still values, whatever order the fields are
		// looked at in
		rows[0].(map[string]interface{})["k"] = "{{k2}}"
		rows[0].(map[string]interface{})["k2"] = "{{k}} " + gen.Word(r, 1, 3)
		rows[1].(map[string]interface{})["k2"] = "{{on}}{{k}}"
	}
	// rows as they come out of a CSV reader or a form (all strings), a row that is no map at all
	switch r.Intn(5) {
	case 0:
		rows = append(rows, map[string]string{"k": gen.Word(r, 1, 4), "on": "true"})
	case 1:
		rows = append([]interface{}{map[string]string{"k": gen.Word(r, 1, 4)}}, rows...)
	case 2:
		rows = append(rows, gen.Word(r, 1, 4), 7)
	}
	d.SetList("rows", rows)
	// a picture of a random format for {{#image pic}} placeholders (unique bytes per data set)
	im := gen.MakeImage([]string{"png", "jpeg", "gif"}[r.Intn(3)], 50000+r.Intn(1<<20), r.Range(2, 9), r.Range(2, 9))
	if c17FileDir != "" && r.Chance(1, 3) {
		// the picture given by a relative file name (the worker's current directory is its scratch directory); the file exists
		// below the engine's base path as well, so the case does not depend on whether the engine honours that option for pictures
		name := fmt.Sprintf("pic%d.%s", im.Serial, im.Format)
		os.MkdirAll(filepath.Join(c17FileDir, "assets"), 0755)
		os.WriteFile(filepath.Join(c17FileDir, name), im.Data, 0644)
		os.WriteFile(filepath.Join(c17FileDir, "assets", name), im.Data, 0644)
		d.SetImage("pic", name, nil)
		return d
	}
	if r.Chance(1, 3) {
		// a picture that comes with its own configuration object, description and title
		d.SetImageWithDetails("pic", "", im.Data, &document.ImageConfig{Position: document.ImagePositionInline, Alignment: document.AlignCenter, Size: &document.ImageSize{Width: 20, KeepAspectRatio: true}}, "described "+gen.Word(r, 1, 5), "title "+gen.Word(r, 1, 5))
		return d
	}
	d.SetImageFromData("pic", im.Data, nil)
	return d
}

// c17FileDir is the worker's scratch directory once the worker has made it its current directory ("" before).
var c17FileDir string

// c17UseScratchAsCwd makes the scratch directory the current directory of this worker process (C17 workers run C17 cases only
// and the harness itself uses absolute paths), removes the picture files of earlier cases, and draws the engine's base path.
func c17UseScratchAsCwd(c *core.Ctx, r *rng.R, eng *document.TemplateEngine, res *core.Result) {
	if c.WorkDir == "" || !filepath.IsAbs(c.WorkDir) || os.Chdir(c.WorkDir) != nil {
		c17FileDir = ""
		return
	}
	c17FileDir = c.WorkDir
	if old, _ := filepath.Glob(filepath.Join(c.WorkDir, "pic*.*")); len(old) > 200 {
		for _, f := range old {
			os.Remove(f)
			os.Remove(filepath.Join(c.WorkDir, "assets", filepath.Base(f)))
		}
	}
	switch r.Intn(3) {
	case 0:
		eng.SetBasePath("assets")
		res.Count("engines_with_relative_base_path", 1)
	case 1:
		eng.SetBasePath(filepath.Join(c.WorkDir, "assets"))
		res.Count("engines_with_absolute_base_path", 1)
	}
}

func c17Body(r *rng.R, tag string) string {
	parts := []string{tag + " {{x}}", "{{#if c}}yes " + tag + "{{else}}no " + tag + "{{/if}}", "{{#each xs}}<{{this}}:{{@index}}>{{/each}}", "{{#each rows}}[{{k}}{{#if on}}+{{/if}}]{{/each}}", "{{#each rows}}({{k}}:{{#each members}}{{m}}{{this}},{{/each}}){{/each}}", "plain " + tag, "{{name}} and {{missing}}", "n={{n}}"}
	var sb strings.Builder
	for i, n := 0, r.Range(1, 4); i < n; i++ {
		sb.WriteString(parts[r.Intn(len(parts))])
		if r.Bool() {
			sb.WriteString("\n")
		} else {
			sb.WriteString(" ")
		}
	}
	return sb.String()
}

var c17Blocks = []string{"head", "main", "foot"}

// c17BaseDoc builds the base document of a document template deterministically from a seed.
func c17BaseDoc(seed uint64, workDir string) *document.Document {
	r := rng.New(seed)
	s := NewScript(r, false, workDir)
	s.NoReopen = true
	s.Weights = map[string]int{"RenderAsTemplate": 0, "Reopen": 0, "AddImageFromFile": 0, "TOC": 0, "Remove": 0}
	s.Run(r.Range(1, 10), nil)
	if s.Panic != nil {
		d := document.New()
		d.AddParagraph("fallback {{x}}")
		return d
	}
	s.Doc.AddParagraph("value {{x}} / {{name}} / {{#if c}}C{{/if}}")
	if t, err := s.Doc.AddTable(&document.TableConfig{Rows: 2, Cols: 2, Width: 5000}); err == nil && t != nil {
		t.SetCellText(0, 0, "K")
		t.SetCellText(1, 0, "{{#each rows}}{{k}}")
		t.SetCellText(1, 1, "{{on}}{{/each}}")
	}
	if r.Bool() {
		s.Doc.AddHeader(document.HeaderFooterTypeDefault, "hdr {{x}}")
	}
	if r.Bool() {
		// placeholders inside a nested table
		if t, err := s.Doc.AddTable(&document.TableConfig{Rows: 1, Cols: 2, Width: 5000}); err == nil && t != nil {
			t.SetCellText(0, 0, "outer {{name}}")
			if nt, err := t.AddNestedTable(0, 1, &document.TableConfig{Rows: 1, Cols: 2, Width: 2000}); err == nil && nt != nil {
				nt.SetCellText(0, 0, "nested {{x}}")
				nt.SetCellText(0, 1, "{{name}}")
			}
		}
	}
	if r.Chance(3, 4) {
		s.Doc.AddParagraph("{{#image pic}}")
	}
	if r.Chance(1, 3) {
		// loops in the body: over three paragraphs and inside one paragraph
		if r.Bool() {
			s.Doc.AddParagraph("{{#each rows}}")
			s.Doc.AddParagraph("item {{k}} / {{k2}} / {{on}}")
			s.Doc.AddParagraph("{{/each}}")
		} else {
			s.Doc.AddParagraph("list: {{#each rows}}[{{k}}|{{k2}}]{{/each}} end")
		}
	}
	return s.Doc
}

// ---- sequential purity / repeatability / independence ----

// c17Chain returns the template and the objects it was resolved against, nearest first; ok is false when two objects of the chain
// carry the same name (a fresh engine cannot hold both).
// c17Name: the six names a case uses. Names are opaque strings: two templates are the same template only when their
// names are equal, whatever the names look like (dots, an extension, a path, letter case, blanks, other scripts).
func c17Name(scheme, i int) string {
	switch scheme {
	case 1:
		return []string{"letter", "letter.en", "letter.de", "letter.en.v2", "layout.home", "layout"}[i]
	case 2:
		return []string{"report.docx", "report.tmpl", "report", "report.", ".report", "report.docx.bak"}[i]
	case 3:
		return []string{"tpl/a", "tpl/b", "tpl\\a", "a", "./a", "tpl/../a"}[i]
	case 4:
		return []string{"Invoice", "invoice", "INVOICE", "invoice ", " invoice", "in voice"}[i]
	case 5:
		return []string{"模板", "模板1", "模板 1", "t-é", "t-e\u0301", "t_1"}[i]
	}
	return fmt.Sprintf("t%d", i)
}

func c17Chain(l *c17Loaded) ([]*c17Loaded, bool) {
	var chain []*c17Loaded
	seen := map[string]bool{}
	for p := l; p != nil && len(chain) < 10; p = p.up {
		if seen[p.def.name] {
			return nil, false
		}
		seen[p.def.name] = true
		chain = append(chain, p)
	}
	return chain, true
}

type c17Loaded struct {
	def    tplDef
	data   *document.TemplateData
	result map[string]string // recorded right after loading
	base   *document.Document
	up     *c17Loaded // the template object this one extended when it was loaded (stays its base even if that name is replaced or removed later)
}

func c17Sequential(c *core.Ctx, r *rng.R) *core.Result {
	res := &core.Result{}
	eng := document.NewTemplateEngine()
	c17UseScratchAsCwd(c, r, eng, res)
	loaded := map[string]*c17Loaded{}
	var order []string
	var log []string
	version := 0
	// documents produced by earlier renders stay alive: later renders must not change what they serialise to
	type keptRender struct {
		d    *document.Document
		out  map[string]string
		from string
	}
	var kept []*keptRender
	note := func() string { return "calls: " + strings.Join(tail(log, 16), " ") }

	render := func(name string, data *document.TemplateData, viaTpl bool) (map[string]string, string) {
		var d *document.Document
		var err error
		cg := core.Catch(func() {
			if viaTpl {
				d, err = eng.RenderTemplateToDocument(name, data)
			} else {
				d, err = eng.RenderToDocument(name, data)
			}
		})
		if cg != nil {
			return nil, "panic: " + cg.Msg
		}
		if err != nil || d == nil {
			return nil, fmt.Sprintf("error: %v", err)
		}
		out, msg := renderOutcome(d)
		for _, k := range kept {
			now, _ := renderOutcome(k.d)
			res.Count("earlier_renders_rechecked", 1)
			if part, df := canonDiff(k.out, now); part != "" {
				res.Add("independence/earlier-render-changed-by-later-render", fmt.Sprintf("a document rendered earlier from %s serialises differently after a later render of %s: part %s: %s", k.from, name, part, df), "calls: "+strings.Join(tail(log, 16), " "))
			}
		}
		if out != nil {
			kept = append(kept, &keptRender{d: d, out: out, from: name})
			if len(kept) > 4 {
				kept = kept[1:] // the four most recent renders stay under observation
			}
		}
		return out, msg
	}
	relation := func(changed, observed string) string {
		// how the template whose load triggered the check relates to the observed one
		lo, lc := loaded[observed], loaded[changed]
		switch {
		case lo == nil || lc == nil:
			return "unrelated"
		case changed == observed:
			return "itself"
		case lc.def.parent == observed:
			return "base-of-loaded-child"
		case lc.def.parent != "" && lc.def.parent == lo.def.parent:
			return "sibling-of-loaded-child"
		case loaded[lc.def.parent] != nil && loaded[lc.def.parent].def.parent == observed:
			return "grandbase-of-loaded-child"
		}
		return "unrelated"
	}
	// recheck renders every loaded template again and compares with the result recorded when it was loaded
	recheck := func(trigger, changed string) {
		for _, name := range order {
			l := loaded[name]
			if l == nil || l.result == nil {
				continue
			}
			got, msg := render(name, l.data, false)
			res.Count("re-renders_compared", 1)
			if got == nil {
				res.Add("independence/"+trigger+"/"+relation(changed, name)+"/render-fails-now", fmt.Sprintf("template %s rendered when loaded but fails after %s: %s", name, trigger, msg), note())
				continue
			}
			if part, d := canonDiff(l.result, got); part != "" {
				res.Add("independence/"+trigger+"/"+relation(changed, name)+"/result-changed", fmt.Sprintf("template %s renders differently after %s(%s): part %s: %s", name, trigger, changed, part, d), note())
			}
		}
	}
	n := r.Range(3, tierN(c.Tier, 14, 30))
	nameScheme := r.Intn(6)
	res.Count(fmt.Sprintf("name_scheme_%d", nameScheme), 1)
	for i := 0; i < n && len(res.Findings) == 0; i++ {
		switch k := r.Intn(100); {
		case k < 50: // load a text template (root, child of an existing one, sibling)
			version++
			def := tplDef{name: c17Name(nameScheme, r.Intn(6)), version: version}
			if old := loaded[def.name]; old != nil {
				// replacing a template that others extend: the children were resolved against the old object and must keep rendering what they rendered
				for _, l := range loaded {
					if l.def.parent == def.name {
						l.def.parent = fmt.Sprintf("#replaced:%s:v%d", def.name, old.def.version)
						res.Count("bases_replaced_under_children", 1)
					}
				}
			}
			var cands []string
			for _, nm := range order {
				if l := loaded[nm]; l != nil && !l.def.isDoc && nm != def.name {
					depth := 0
					for p := l.def.parent; p != "" && loaded[p] != nil && depth < 8; p = loaded[p].def.parent {
						depth++
					}
					if depth < 2 {
						cands = append(cands, nm)
					}
				}
			}
			tag := fmt.Sprintf("V%d", version)
			if len(cands) > 0 && r.Chance(3, 5) {
				def.parent = cands[r.Intn(len(cands))]
				var sb strings.Builder
				sb.WriteString(`{{extends "` + def.parent + `"}}`)
				for _, b := range c17Blocks {
					if r.Bool() {
						sb.WriteString(`{{#block "` + b + `"}}` + c17Body(r, tag+b) + `{{/block}}`)
					}
				}
				def.content = sb.String()
			} else {
				var sb strings.Builder
				sb.WriteString(c17Body(r, tag))
				for _, b := range c17Blocks {
					if r.Chance(2, 3) {
						sb.WriteString(`{{#block "` + b + `"}}` + c17Body(r, tag+"def"+b) + `{{/block}}` + "\n")
					}
				}
				sb.WriteString(c17Body(r, tag+"end"))
				def.content = sb.String()
			}
			var err error
			if cg := core.Catch(func() { _, err = eng.LoadTemplate(def.name, def.content) }); cg != nil {
				res.Add("LoadTemplate/"+cg.Key(), "LoadTemplate panicked: "+cg.Msg, cg.Stack)
				break
			}
			log = append(log, fmt.Sprintf("LoadTemplate(%s,extends=%q,%s)", def.name, def.parent, tag))
			if err != nil {
				break
			}
			if loaded[def.name] == nil {
				order = append(order, def.name)
			}
			l := &c17Loaded{def: def, data: c17Data(r)}
			if def.parent != "" {
				l.up = loaded[def.parent]
			}
			loaded[def.name] = l
			l.result, _ = render(def.name, l.data, false)
			// alone baseline: the same chain of definitions loaded into a fresh engine renders the same
			if chain, ok := c17Chain(l); ok && l.result != nil {
				fresh := document.NewTemplateEngine()
				var fd *document.Document
				var ferr error
				cg := core.Catch(func() {
					for j := len(chain) - 1; j >= 0; j-- {
						if _, ferr = fresh.LoadTemplate(chain[j].def.name, chain[j].def.content); ferr != nil {
							return
						}
					}
					fd, ferr = fresh.RenderToDocument(def.name, l.data)
				})
				if cg == nil && ferr == nil && fd != nil {
					res.Count("alone_baselines_compared", 1)
					alone, _ := renderOutcome(fd)
					if part, df := canonDiff(alone, l.result); part != "" {
						cls := "root"
						if len(chain) > 1 {
							cls = "inheriting"
						}
						res.Add("independence/alone-baseline/"+cls+"/differs-from-fresh-engine", fmt.Sprintf("template %s (chain of %d) renders differently in this engine than in a fresh engine holding only its own chain: part %s: %s", def.name, len(chain), part, df), note())
					}
				}
			}
			recheck("LoadTemplate", def.name)
		case k < 68: // load a document template
			version++
			def := tplDef{name: fmt.Sprintf("d%d", r.Intn(3)), isDoc: true, docSeed: r.U64(), version: version}
			base := c17BaseDoc(def.docSeed, c.WorkDir)
			var err error
			if cg := core.Catch(func() { _, err = eng.LoadTemplateFromDocument(def.name, base) }); cg != nil {
				res.Add("LoadTemplateFromDocument/"+cg.Key(), "LoadTemplateFromDocument panicked: "+cg.Msg, cg.Stack)
				break
			}
			log = append(log, fmt.Sprintf("LoadTemplateFromDocument(%s)", def.name))
			if err != nil {
				break
			}
			if loaded[def.name] == nil {
				order = append(order, def.name)
			}
			l := &c17Loaded{def: def, data: c17Data(r), base: base}
			loaded[def.name] = l
			l.result, _ = render(def.name, l.data, false)
			recheck("LoadTemplateFromDocument", def.name)
		case k >= 80 && k < 85: // the TemplateRenderer front end (file -> template -> render), with the same monitors
			version++
			base := c17BaseDoc(r.U64(), c.WorkDir)
			path := filepath.Join(c.WorkDir, fmt.Sprintf("c17-renderer-%d.docx", c.Case))
			if err := base.Save(path); err != nil {
				break
			}
			data := c17Data(r)
			tr := document.NewTemplateRenderer()
			tr.SetLogging(false)
			var err error
			if cg := core.Catch(func() { _, err = tr.LoadTemplateFromFile("rt", path) }); cg != nil || err != nil {
				os.Remove(path)
				break
			}
			// what the plain engine makes of the same file and the same data, before the renderer has seen the data
			engineRender := func() map[string]string {
				e2 := document.NewTemplateEngine()
				d0, oerr := document.Open(path)
				if oerr != nil {
					return nil
				}
				var d2 *document.Document
				var rerr error
				if cg := core.Catch(func() {
					if _, rerr = e2.LoadTemplateFromDocument("rt", d0); rerr == nil {
						d2, rerr = e2.RenderTemplateToDocument("rt", data)
					}
				}); cg != nil || rerr != nil || d2 == nil {
					return nil
				}
				out, _ := renderOutcome(d2)
				return out
			}
			before := engineRender()
			beforeD := deep.Dump(data)
			var r1, r2 map[string]string
			run := func() map[string]string {
				var d2 *document.Document
				var rerr error
				if cg := core.Catch(func() { d2, rerr = tr.RenderTemplate("rt", data) }); cg != nil || rerr != nil || d2 == nil {
					return nil
				}
				out, _ := renderOutcome(d2)
				return out
			}
			r1 = run()
			log = append(log, "TemplateRenderer.RenderTemplate")
			res.Count("renders_monitored", 1)
			res.Count("renderer_front_end_renders", 1)
			if deep.Dump(data) != beforeD {
				res.Add("purity/renderer/data-modified-by-render", "TemplateRenderer.RenderTemplate changed the data", firstDiff(beforeD, deep.Dump(data)), note())
			}
			core.Catch(func() { tr.AnalyzeTemplate("rt") })
			r2 = run()
			if (r1 == nil) != (r2 == nil) {
				res.Add("repeatability/renderer/second-render-differs-in-success", "first and second RenderTemplate disagree on success", note())
			} else if r1 != nil {
				if part, d := canonDiff(r1, r2); part != "" {
					res.Add("repeatability/renderer/second-render-differs", fmt.Sprintf("two TemplateRenderer renders with the same data (AnalyzeTemplate in between) differ in part %s: %s", part, d), note())
				}
			}
			after := engineRender()
			if before != nil && after != nil {
				if part, d := canonDiff(before, after); part != "" {
					res.Add("independence/renderer/engine-render-of-same-data-changed", fmt.Sprintf("the plain engine renders the same file with the same data differently after TemplateRenderer.RenderTemplate saw that data: part %s: %s", part, d), note())
				}
			}
			if before != nil && r1 != nil {
				if part, d := canonDiff(before, r1); part != "" {
					res.Add("independence/renderer/differs-from-engine", fmt.Sprintf("TemplateRenderer.RenderTemplate and TemplateEngine.RenderTemplateToDocument disagree on the same file and data: part %s: %s", part, d), note())
				}
			}
			os.Remove(path)
		case k < 85: // render with purity and repeatability monitors
			if len(order) == 0 {
				break
			}
			name := order[r.Intn(len(order))]
			if r.Bool() { // prefer document templates: they carry the shared structures (relationships, parts, nested tables)
				for _, nm := range order {
					if loaded[nm] != nil && loaded[nm].def.isDoc {
						name = nm
					}
				}
			}
			l := loaded[name]
			if l == nil {
				break
			}
			data := l.data
			if r.Bool() {
				data = c17Data(r)
			}
			tpl, _ := eng.GetTemplate(name)
			via := r.Bool()
			beforeT, beforeD := deep.Dump(tpl), deep.Dump(data)
			beforeB := ""
			if l.base != nil {
				beforeB = deep.Dump(l.base)
			}
			r1, m1 := render(name, data, via)
			cls := "text-template"
			if l.def.isDoc {
				cls = "document-template"
			} else if l.def.parent != "" {
				cls = "inheriting-template"
			}
			log = append(log, fmt.Sprintf("Render(%s,via=%v)", name, via))
			res.Count("renders_monitored", 1)
			if deep.Dump(tpl) != beforeT {
				res.Add("purity/"+cls+"/template-modified-by-render", "rendering "+name+" changed the template object", firstDiff(beforeT, deep.Dump(tpl)), note())
			}
			if deep.Dump(data) != beforeD {
				res.Add("purity/"+cls+"/data-modified-by-render", "rendering "+name+" changed the data", firstDiff(beforeD, deep.Dump(data)), note())
			}
			if l.base != nil && deep.Dump(l.base) != beforeB {
				res.Add("purity/"+cls+"/base-document-modified-by-render", "rendering "+name+" changed its base document", firstDiff(beforeB, deep.Dump(l.base)), note())
			}
			r2, m2 := render(name, data, via)
			if (r1 == nil) != (r2 == nil) {
				res.Add("repeatability/"+cls+"/second-render-differs-in-success", fmt.Sprintf("first render: %q, second render: %q", m1, m2), note())
			} else if r1 != nil {
				if part, d := canonDiff(r1, r2); part != "" {
					res.Add("repeatability/"+cls+"/second-render-differs", fmt.Sprintf("two renders of %s with the same data differ in part %s: %s", name, part, d), note())
				}
			}
		case k < 93:
			if len(order) == 0 {
				break
			}
			name := order[r.Intn(len(order))]
			core.Catch(func() { eng.RemoveTemplate(name) })
			log = append(log, "RemoveTemplate("+name+")")
			delete(loaded, name)
			for _, l := range loaded {
				if l.def.parent == name {
					l.def.parent = "#removed:" + name // the child keeps the removed object as its base; the name may be reused
				}
			}
			for i, nm := range order {
				if nm == name {
					order = append(order[:i], order[i+1:]...)
					break
				}
			}
			recheck("RemoveTemplate", name)
		default:
			core.Catch(func() { eng.ClearCache() })
			log = append(log, "ClearCache")
			loaded = map[string]*c17Loaded{}
			order = nil
		}
	}
	res.Nontrivial = res.Stats["renders_monitored"]+res.Stats["re-renders_compared"] >= 2
	res.Sig = "seq|" + strings.Join(log, ";")
	res.Sample = map[string]interface{}{"case": c.Case, "mode": "sequential", "calls": tail(log, 12)}
	return res
}

// ---- concurrent use of one engine ----

type cacheIn struct {
	Op   string // load | render | remove | clear
	Name string
	Ver  int
}

var verRe = regexp.MustCompile(`VER(\d+)`)

var cacheModel = porcupine.Model{
	Init: func() interface{} { return map[string]int{} },
	Step: func(st, in, out interface{}) (bool, interface{}) {
		m := st.(map[string]int)
		i := in.(cacheIn)
		switch i.Op {
		case "load":
			n := map[string]int{}
			for k, v := range m {
				n[k] = v
			}
			n[i.Name] = i.Ver
			return true, n
		case "remove":
			n := map[string]int{}
			for k, v := range m {
				if k != i.Name {
					n[k] = v
				}
			}
			return true, n
		case "clear":
			return true, map[string]int{}
		}
		v, ok := m[i.Name]
		if !ok {
			v = -1
		}
		return out.(int) == v, st
	},
	Equal: func(a, b interface{}) bool { return fmt.Sprint(a) == fmt.Sprint(b) },
	DescribeOperation: func(in, out interface{}) string {
		return fmt.Sprintf("%+v -> %v", in, out)
	},
}

func c17Concurrent(c *core.Ctx, r *rng.R) *core.Result {
	res := &core.Result{}
	eng := document.NewTemplateEngine()
	c17UseScratchAsCwd(c, r, eng, res)
	nClients := r.Range(2, 4)
	if c.Race {
		nClients = r.Range(2, 8)
	}
	names := []string{"a", "b"}
	opsPer := r.Range(3, 6)
	data := c17Data(r)
	// the engine also holds an inheritance family and a document template that are rendered concurrently (purity oracle)
	fam := []tplDef{{name: "fbase", content: "F {{x}} " + `{{#block "main"}}defmain{{/block}}|{{#block "foot"}}deffoot{{/block}}`}}
	base := c17BaseDoc(r.U64(), c.WorkDir)
	if _, err := eng.LoadTemplate("fbase", fam[0].content); err != nil {
		res.Inconcl = "harness: cannot load family base"
		return res
	}
	eng.LoadTemplateFromDocument("fdoc", base)
	baseline := map[string]map[string]string{}
	var progress int64 // calls on the engine that returned
	rendVia := func(name string, via bool) (map[string]string, string) {
		var d *document.Document
		var err error
		defer atomic.AddInt64(&progress, 1)
		if cg := core.Catch(func() {
			if via {
				d, err = eng.RenderTemplateToDocument(name, data)
			} else {
				d, err = eng.RenderToDocument(name, data)
			}
		}); cg != nil {
			return nil, "panic:" + cg.Msg
		}
		if err != nil || d == nil {
			return nil, "notfound"
		}
		p, _ := renderOutcome(d)
		return p, ""
	}
	rend := func(name string) (map[string]string, string) { return rendVia(name, false) }
	for _, nm := range []string{"fbase", "fdoc"} { // one baseline per entry point (they are different functions of a document template)
		baseline[nm], _ = rend(nm)
		baseline[nm+"/via"], _ = rendVia(nm, true)
	}
	childContent := `{{extends "fbase"}}{{#block "main"}}CHILD {{name}}{{/block}}`
	// plan the operations of every client beforehand (deterministic given the case)
	type planned struct {
		in      cacheIn
		content string
		via     bool // render through RenderTemplateToDocument instead of RenderToDocument
		asDoc   bool // load: the version is a document (LoadTemplateFromDocument) whose paragraph carries the content
	}
	docOf := func(content string) *document.Document {
		d := document.New()
		d.AddParagraph(content)
		return d
	}
	plans := make([][]planned, nClients)
	ver := 0
	for ci := range plans {
		for k := 0; k < opsPer; k++ {
			nm := names[r.Intn(len(names))]
			switch x := r.Intn(10); {
			case x < 4:
				ver++
				// a name may hold a text template at one moment and a document template at the next
				plans[ci] = append(plans[ci], planned{in: cacheIn{"load", nm, ver}, content: fmt.Sprintf("VER%d {{x}} %s", ver, c17Body(r, "b")), asDoc: r.Chance(1, 3)})
			case x < 8:
				plans[ci] = append(plans[ci], planned{in: cacheIn{Op: "render", Name: nm}, via: r.Bool()})
			case x < 9:
				plans[ci] = append(plans[ci], planned{in: cacheIn{Op: "remove", Name: nm}})
			default:
				if r.Chance(1, 3) {
					plans[ci] = append(plans[ci], planned{in: cacheIn{Op: "family"}, via: r.Bool()})
				} else {
					plans[ci] = append(plans[ci], planned{in: cacheIn{Op: "render", Name: nm}, via: r.Bool()})
				}
			}
		}
	}
	// expected render result of every version, computed alone in a private engine
	alone, aloneVia := map[int]map[string]string{}, map[int]map[string]string{}
	for pi := range plans {
		for pj := range plans[pi] {
			p := &plans[pi][pj]
			if p.in.Op == "load" {
				for attempt := 0; attempt < 2; attempt++ {
					e2 := document.NewTemplateEngine()
					if p.asDoc {
						e2.LoadTemplateFromDocument("x", docOf(p.content))
					} else {
						e2.LoadTemplate("x", p.content)
					}
					delete(aloneVia, p.in.Ver)
					delete(alone, p.in.Ver)
					if d, err := e2.RenderTemplateToDocument("x", data); err == nil && d != nil {
						aloneVia[p.in.Ver], _ = renderOutcome(d)
					}
					if d, err := e2.RenderToDocument("x", data); err == nil && d != nil {
						alone[p.in.Ver], _ = renderOutcome(d)
					}
					// the history needs to tell the versions apart: a document version whose render does not show its marker (the
					// engine drops or rewrites the paragraph that carries it - not this check's business) is loaded as text instead
					if !p.asDoc || (verRe.MatchString(aloneVia[p.in.Ver]["word/document.xml"]) && verRe.MatchString(alone[p.in.Ver]["word/document.xml"])) {
						break
					}
					p.asDoc = false
				}
			}
		}
	}
	document.VerifSetCallback(func(string) { runtime.Gosched() })
	var clk int64
	var mu sync.Mutex
	var history []porcupine.Operation
	type diffRec struct{ key, msg string }
	var diffs []diffRec
	var wg sync.WaitGroup
	start := make(chan struct{})
	dataDump := deep.Dump(data)
	for ci := range plans {
		wg.Add(1)
		go func(ci int) {
			defer wg.Done()
			<-start
			for _, p := range plans[ci] {
				if p.in.Op == "family" {
					// load a child of the shared base and render base, child and the document template
					core.Catch(func() { eng.LoadTemplate(fmt.Sprintf("fchild%d", ci), childContent) })
					atomic.AddInt64(&progress, 1)
					for _, nm := range []string{"fbase", "fdoc"} {
						got, _ := rendVia(nm, p.via)
						bl := baseline[nm]
						if p.via {
							bl = baseline[nm+"/via"]
						}
						if got != nil && bl != nil {
							if part, d := canonDiff(bl, got); part != "" {
								mu.Lock()
								diffs = append(diffs, diffRec{"concurrent/" + nm + "-renders-differently-beside-other-calls", fmt.Sprintf("part %s: %s", part, d)})
								mu.Unlock()
							}
						}
					}
					continue
				}
				call := atomic.AddInt64(&clk, 1)
				var out interface{}
				switch p.in.Op {
				case "load":
					core.Catch(func() {
						if p.asDoc {
							eng.LoadTemplateFromDocument(p.in.Name, docOf(p.content))
						} else {
							eng.LoadTemplate(p.in.Name, p.content)
						}
					})
					atomic.AddInt64(&progress, 1)
				case "remove":
					core.Catch(func() { eng.RemoveTemplate(p.in.Name) })
					atomic.AddInt64(&progress, 1)
				case "clear":
					core.Catch(func() { eng.ClearCache() })
					atomic.AddInt64(&progress, 1)
				case "render":
					got, msg := rendVia(p.in.Name, p.via)
					seen := -1
					if got != nil {
						seen = -2
						if m := verRe.FindStringSubmatch(got["word/document.xml"]); m != nil {
							fmt.Sscan(m[1], &seen)
						}
						exp := alone[seen]
						if p.via {
							exp = aloneVia[seen]
						}
						if exp != nil {
							if part, d := canonDiff(exp, got); part != "" {
								mu.Lock()
								diffs = append(diffs, diffRec{"concurrent/render-differs-from-alone-baseline", fmt.Sprintf("version %d part %s: %s", seen, part, d)})
								mu.Unlock()
							}
						}
					} else if strings.HasPrefix(msg, "panic") {
						mu.Lock()
						diffs = append(diffs, diffRec{"concurrent/render-panics", msg})
						mu.Unlock()
					}
					out = seen
				}
				ret := atomic.AddInt64(&clk, 1)
				mu.Lock()
				history = append(history, porcupine.Operation{ClientId: ci, Input: p.in, Call: call, Output: out, Return: ret})
				mu.Unlock()
				runtime.Gosched()
			}
		}(ci)
	}
	close(start)
	// progress monitor: the clients normally finish within milliseconds. If no call on the engine returns for a long stretch the
	// goroutine states decide: every client parked in a lock acquisition inside the engine, none runnable => nobody is left to
	// release the lock (deadlock, a finding); anything else => slow machine (inconclusive)
	done := make(chan struct{})
	go func() { wg.Wait(); close(done) }()
	last, lastChange := int64(-1), time.Now()
	stuck := false
wait:
	for {
		select {
		case <-done:
			break wait
		case <-time.After(250 * time.Millisecond):
		}
		if now := atomic.LoadInt64(&progress); now != last {
			last, lastChange = now, time.Now()
			continue
		}
		if time.Since(lastChange) < time.Duration(tierN(c.Tier, 20, 40))*time.Second {
			continue
		}
		buf := make([]byte, 4<<20)
		buf = buf[:runtime.Stack(buf, true)]
		parked, others := 0, 0
		var where []string
		for _, g := range strings.Split(string(buf), "\n\n") {
			if !strings.Contains(g, "props.c17Concurrent.func") || strings.Contains(g, "sync.(*WaitGroup).Wait") || strings.Contains(g, "runtime.Stack") {
				continue
			}
			head := g
			if i := strings.Index(g, "\n"); i > 0 {
				head = g[:i]
			}
			if (strings.Contains(head, "[sync.RWMutex") || strings.Contains(head, "[sync.Mutex") || strings.Contains(head, "[semacquire")) && strings.Contains(g, "(*TemplateEngine)") {
				parked++
				for _, ln := range strings.Split(g, "\n") {
					if strings.Contains(ln, "wordZero/pkg/document.(*TemplateEngine)") {
						fn := strings.TrimPrefix(ln[strings.Index(ln, "(*TemplateEngine)."):], "(*TemplateEngine).")
						if i := strings.Index(fn, "("); i > 0 {
							fn = fn[:i]
						}
						where = append(where, fn)
						break
					}
				}
			} else {
				others++
			}
		}
		if parked > 0 && others == 0 {
			sort.Strings(where)
			uniq := where[:0]
			for i, w := range where {
				if i == 0 || w != where[i-1] {
					uniq = append(uniq, w)
				}
			}
			res.Add("concurrent/calls-never-return/all-clients-parked-on-the-engine-lock/"+strings.Join(uniq, "+"), fmt.Sprintf("no call on the engine returned for %v: %d client goroutines are parked acquiring the engine's lock, none is runnable (deadlock)", time.Since(lastChange).Round(time.Second), parked), string(buf))
		} else {
			res.Inconcl = fmt.Sprintf("no progress for %v but %d client goroutines are not parked on the engine lock", time.Since(lastChange).Round(time.Second), others)
		}
		stuck = true
		break
	}
	document.VerifSetCallback(nil)
	if stuck {
		// the parked goroutines stay behind (they own nothing but this case's engine); nothing recorded by them is used
		res.Nontrivial = true
		res.Sig = fmt.Sprintf("conc|stuck|%d", c.Case)
		res.Sample = map[string]interface{}{"case": c.Case, "mode": "concurrent", "clients": nClients, "stuck": true}
		return res
	}
	for _, d := range diffs {
		res.Add(d.key, d.msg)
	}
	if deep.Dump(data) != dataDump {
		res.Add("concurrent/data-modified-by-render", "the shared template data changed during concurrent renders")
	}
	sort.Slice(history, func(i, j int) bool { return history[i].Call < history[j].Call })
	res.Count("history_operations", int64(len(history)))
	if !c.Race {
		r0 := porcupine.CheckOperationsTimeout(cacheModel, history, 20*time.Second)
		switch r0 {
		case porcupine.Ok:
			res.Count("histories_linearizable", 1)
		case porcupine.Illegal:
			var sb strings.Builder
			for _, op := range history {
				fmt.Fprintf(&sb, "c%d [%d,%d] %+v -> %v\n", op.ClientId, op.Call, op.Return, op.Input, op.Output)
			}
			res.Add("concurrent/cache-history-not-linearizable", "no sequential order of the load/render/remove calls explains which template versions the renders saw", sb.String())
		default:
			res.Inconcl = "linearizability checker timed out"
		}
	}
	overlaps := 0
	for i := range history {
		for j := i + 1; j < len(history); j++ {
			if history[j].Call < history[i].Return && history[i].ClientId != history[j].ClientId {
				overlaps++
			}
		}
	}
	res.Count("overlapping_operation_pairs", int64(overlaps))
	res.Count("concurrent_groups", 1)
	res.Nontrivial = len(history) >= 4
	var sig []string
	for _, op := range history {
		sig = append(sig, fmt.Sprintf("%d:%+v>%v", op.ClientId, op.Input, op.Output))
	}
	res.Sig = "conc|" + strings.Join(sig, ";")
	res.Sample = map[string]interface{}{"case": c.Case, "mode": "concurrent", "clients": nClients, "history": tail(sig, 14)}
	return res
}

func c17RaceClass(a, b string) string { return "" }

func init() {
	core.Register(&core.Check{
		ID:    "C17",
		Level: "exploration",
		Rule: "sequential cases: one engine, random LoadTemplate (roots with blocks, children and siblings extending loaded templates up to depth 3, versioned content) / LoadTemplateFromDocument (generated base documents) / RemoveTemplate / ClearCache / Render calls; monitors: deep snapshots of the template object, its base document and the data before vs after every render (purity), two renders of the same (template, data) compared canonically (repeatability), " +
			"and after EVERY cache mutation every loaded template is rendered again with its recorded data and compared with the result recorded when it was loaded (independence; the key names the relation: base / sibling / grand-base of the loaded child, unrelated). " +
			"Concurrent cases: 2-4 (race binary 2-8) goroutines on one engine with planned load/render/remove calls on two names whose content carries a version marker, plus loading children of a shared base and rendering the base and a document template; each render must equal the alone baseline of the version it shows, the recorded history {client, op, name, version seen, call, return} on a logical clock must be linearizable against a sequential map model (porcupine, 20 s timeout => inconclusive), the shared data must be unchanged; the -race binary reports library races. Non-trivial: >=2 monitored renders or >=4 history operations.",
		Cases: func(t string) int { return tierN(t, 1500, 40000) },
		Run: func(c *core.Ctx) *core.Result {
			r := caseRng(c)
			if c.Race || c.Case%3 == 2 {
				return c17Concurrent(c, r)
			}
			return c17Sequential(c, r)
		},
		RaceCases:      func(t string) int { return tierN(t, 150, 5000) },
		RaceClass:      c17RaceClass,
		Assume:         []string{"a template keeps the base object it was resolved against when it was loaded: replacing or removing that name later must not change what it renders", "callers do not mutate TemplateData while rendering", "the race detector only sees the interleavings that occurred"},
		CrashIsFinding: true,
		CaseTimeoutS:   120,
		MinNontrivial:  200,
	})
}
