package props

import (
	"bytes"
	"encoding/binary"
	"fmt"
	"hash/crc32"
	"io"
	"math"
	"os"
	"path/filepath"
	"sort"
	"strings"

	"github.com/zerx-lab/wordZero/pkg/document"

	"verifharness/internal/core"
	"verifharness/internal/gen"
	"verifharness/internal/opc"
	"verifharness/internal/rng"
)

// picEntry is the ledger record of one image addition.
type picEntry struct {
	serial   int
	data     []byte
	pxW, pxH int
	w, h     float64 // requested mm (0 = not given)
	keep     bool
	where    string // "body" | "cell:<table>/<row>/<col>" | "template"
	via      string
}

// expectExtent returns the acceptable (cx, cy) pairs for an entry.
func (e *picEntry) expectExtent() [][2]float64 {
	px := [2]float64{float64(e.pxW) * 9525, float64(e.pxH) * 9525}
	ratioH := float64(e.pxH) / float64(e.pxW)
	switch {
	case e.w > 0 && e.h > 0:
		return [][2]float64{{e.w * 36000, e.h * 36000}}
	case e.w > 0 && e.keep:
		return [][2]float64{{e.w * 36000, e.w * 36000 * ratioH}}
	case e.h > 0 && e.keep:
		return [][2]float64{{e.h * 36000 / ratioH, e.h * 36000}}
	case e.w > 0: // one dimension without KeepAspectRatio: the statement names no rule
		return [][2]float64{px, {e.w * 36000, e.w * 36000 * ratioH}, {e.w * 36000, px[1]}}
	case e.h > 0:
		return [][2]float64{px, {e.h * 36000 / ratioH, e.h * 36000}, {px[0], e.h * 36000}}
	}
	return [][2]float64{px}
}

// callerBuffer hands the library the picture in a buffer of the caller's in one case out of three; the returned function
// is what the caller does next with that buffer: it reads the next file into it. The picture that was added is the one
// the buffer held when the call was made.
func callerBuffer(r *rng.R, res *core.Result, e *picEntry, data []byte) ([]byte, func()) {
	if !r.Chance(1, 3) {
		return data, func() {}
	}
	b := append([]byte(nil), data...)
	e.via += "+caller-reuses-its-buffer"
	res.Count("pictures_given_in_a_buffer_the_caller_reuses", 1)
	return b, func() {
		for i := range b {
			b[i] = byte(i*7 + 3)
		}
	}
}

func hashBytes(b []byte) string { return fmt.Sprintf("%d:%016x", len(b), h64(string(b))) }

// c10Check resolves every picture of the saved main part and compares with the ledger.
func c10Check(res *core.Result, raw []byte, ledger []*picEntry, foreignMedia map[string][]byte, foreignBlips int, stage, note string) {
	fail := func(key, format string, a ...interface{}) {
		res.Add(stage+"/"+key, fmt.Sprintf(format, a...), note)
	}
	p := opc.Read(raw)
	root, pr := p.Tree("word/document.xml")
	if root == nil || len(pr) > 0 {
		res.Count("main_part_unreadable(C01)", 1)
		return
	}
	res.Count("packages_checked", 1)
	rels, _ := p.Rels("word/_rels/document.xml.rels")
	relByID := map[string]opc.Rel{}
	for _, r := range rels {
		relByID[r.ID] = r
	}
	for name, want := range foreignMedia {
		got, ok := p.Parts[name]
		if !ok {
			fail("existing-media-missing", "media part %s of the opened package is gone", name)
		} else if !bytes.Equal(got, want) {
			fail("existing-media-overwritten", "media part %s of the opened package now holds other bytes", name)
		}
	}
	byHash := map[string]*picEntry{}
	for _, e := range ledger {
		byHash[hashBytes(e.data)] = e
	}
	// every media part holding a ledger image must hold it unmodified (trivially true by hash) and each ledger image must be stored
	stored := map[string]bool{}
	for name, b := range p.Parts {
		if strings.HasPrefix(name, "word/media/") {
			stored[hashBytes(b)] = true
		}
	}
	for _, e := range ledger {
		if !stored[hashBytes(e.data)] {
			fail("image-bytes-not-stored/"+e.via, "image #%d (%s) is not stored unmodified in any media part", e.serial, e.via)
		}
	}
	seen := map[int]int{}
	body := root.Child(opc.NsW, "body")
	tblIndex := map[*opc.Node]int{}
	if body != nil {
		for _, k := range body.Children {
			if k.Is(opc.NsW, "tbl") {
				tblIndex[k] = len(tblIndex)
			}
		}
	}
	unknown := 0
	for _, dr := range root.Find(opc.NsW, "drawing") {
		blips := dr.Find(opc.NsA, "blip")
		if len(blips) == 0 {
			continue
		}
		id, embedded := blips[0].Attr(opc.NsR, "embed")
		if _, linked := blips[0].Attr(opc.NsR, "link"); linked && !embedded {
			// a picture of the opened package that is linked, not embedded: it has no media part (its relationship is the
			// relationship monitor's business)
			res.Count("linked_pictures_seen", 1)
			continue
		}
		res.Count("pictures_resolved", 1)
		rel, ok := relByID[id]
		if !ok || rel.ShortType() != "image" {
			fail("picture-unresolved", "a:blip r:embed=%q does not resolve to an image relationship", id)
			continue
		}
		part := opc.ResolveTarget("word/document.xml", rel.Target)
		data, ok := p.Parts[part]
		if !ok {
			fail("picture-target-missing", "picture relationship %s points at %s which is not in the package", id, part)
			continue
		}
		e := byHash[hashBytes(data)]
		if e == nil {
			unknown++
			continue
		}
		seen[e.serial]++
		// location
		where := "body"
		for x := dr.Parent; x != nil; x = x.Parent {
			if x.Is(opc.NsW, "tc") {
				tr := x.Parent
				tb := tr.Parent
				ci, ri := 0, 0
				for i, c := range tr.ChildrenOf(opc.NsW, "tc") {
					if c == x {
						ci = i
					}
				}
				for i, rr := range tb.ChildrenOf(opc.NsW, "tr") {
					if rr == tr {
						ri = i
					}
				}
				if ti, ok := tblIndex[tb]; ok {
					where = fmt.Sprintf("cell:%d/%d/%d", ti, ri, ci)
				} else {
					where = "cell:nested"
				}
				break
			}
		}
		if e.where != "template" && e.where != where {
			fail("picture-in-wrong-place/"+strings.SplitN(e.where, ":", 2)[0], "image #%d was added to %s but is displayed in %s", e.serial, e.where, where)
		}
		// extent
		var cx, cy float64
		gotExt := false
		for _, ext := range dr.Find(opc.NsWP, "extent") {
			cx, cy = atof(attrAny(ext, "cx")), atof(attrAny(ext, "cy"))
			gotExt = true
		}
		if !gotExt {
			fail("extent-missing", "picture of image #%d has no wp:extent", e.serial)
			continue
		}
		okExt := false
		for _, w := range e.expectExtent() {
			if math.Abs(cx-w[0]) <= 2 && math.Abs(cy-w[1]) <= 2 {
				okExt = true
			}
		}
		cls := sizeClass(e)
		res.Count("extents_compared", 1)
		if !okExt {
			fail("extent/"+cls, "image #%d (%dx%d px, requested %.2fx%.2f mm keep=%v, %s): wp:extent %.0fx%.0f EMU, expected %v", e.serial, e.pxW, e.pxH, e.w, e.h, e.keep, e.via, cx, cy, e.expectExtent())
		}
		for _, xf := range dr.Find(opc.NsA, "xfrm") {
			if ext := xf.Child(opc.NsA, "ext"); ext != nil {
				ax, ay := atof(attrAny(ext, "cx")), atof(attrAny(ext, "cy"))
				if math.Abs(ax-cx) > 2 || math.Abs(ay-cy) > 2 {
					fail("a:ext-differs-from-wp:extent/"+cls, "image #%d: a:ext %.0fx%.0f vs wp:extent %.0fx%.0f", e.serial, ax, ay, cx, cy)
				}
			}
		}
	}
	for _, e := range ledger {
		switch n := seen[e.serial]; {
		case n == 0:
			fail("picture-missing/"+e.via, "image #%d (%s, %s) is shown by no picture of the saved document", e.serial, e.via, e.where)
		case n > 1:
			fail("picture-duplicated/"+e.via, "image #%d (%s) is shown by %d pictures", e.serial, e.via, n)
		}
	}
	if unknown > foreignBlips {
		fail("picture-shows-unknown-bytes", "%d pictures resolve to media bytes that were never supplied (the opened package had %d pictures)", unknown, foreignBlips)
	}
}

func attrAny(n *opc.Node, local string) string {
	for _, a := range n.Attrs {
		if a.Local == local {
			return a.Value
		}
	}
	return ""
}

func sizeClass(e *picEntry) string {
	switch {
	case e.w > 0 && e.h > 0:
		return "width+height"
	case e.w > 0 && e.keep:
		return "width+keep-aspect"
	case e.h > 0 && e.keep:
		return "height+keep-aspect"
	case e.w > 0 || e.h > 0:
		return "one-dimension-no-keep"
	}
	return "pixel-size"
}

var c10Names = []string{"photo.png", "photo.png", "图片.jpg", "no-extension", "misleading.gif", "x.tar.gz", "a b c.JPEG", ".png", "dir/sub/pic.png", "..\\evil.png", "", "image1.png", "image0.png"}

func c10Size(r *rng.R) (w, h float64, keep bool) {
	dim := func() float64 {
		switch r.Intn(5) {
		case 0:
			return 0.5
		case 1:
			return 5000
		case 2:
			return float64(r.Range(5, 200))
		default:
			return float64(r.Range(50, 2500)) / 10
		}
	}
	switch r.Intn(7) {
	case 0:
		return 0, 0, r.Bool()
	case 1, 2:
		return dim(), dim(), r.Bool()
	case 3:
		return dim(), 0, true
	case 4:
		return 0, dim(), true
	case 5:
		return dim(), 0, false
	default:
		return 0, dim(), false
	}
}

// c10Huge: one history per run with a picture file of 33-40 MiB (a scan, a photograph with embedded data) beside small
// ones: added, saved, reopened, one more picture added, saved again - the large picture is stored and shown unmodified
// like any other.
func c10Huge(c *core.Ctx, r *rng.R) *core.Result {
	res := &core.Result{}
	small := gen.MakeImage("png", 900000+c.Case, 6, 4)
	// a valid PNG carrying a large ancillary chunk in front of IEND
	iend := bytes.LastIndex(small.Data, []byte("IEND")) - 4
	if iend <= 0 {
		res.Inconcl = "harness: generated PNG has no IEND chunk"
		return res
	}
	n := (33 + r.Intn(8)) << 20
	payload := make([]byte, n)
	x := r.U64() | 1
	for i := 0; i+8 <= n; i += 8 {
		x ^= x << 13
		x ^= x >> 7
		x ^= x << 17
		binary.LittleEndian.PutUint64(payload[i:], x)
	}
	chunk := make([]byte, 0, n+12)
	chunk = binary.BigEndian.AppendUint32(chunk, uint32(n))
	chunk = append(chunk, "prVt"...)
	chunk = append(chunk, payload...)
	chunk = binary.BigEndian.AppendUint32(chunk, crc32.ChecksumIEEE(chunk[4:]))
	big := append(append(append([]byte{}, small.Data[:iend]...), chunk...), small.Data[iend:]...)
	d := document.New()
	var ledger []*picEntry
	add := func(data []byte, w, h int, serial int) bool {
		var err error
		if cg := core.Catch(func() {
			_, err = d.AddImageFromData(data, fmt.Sprintf("scan%d.png", serial), document.ImageFormatPNG, w, h, nil)
		}); cg != nil {
			res.Add("huge-picture/call/"+cg.Key(), "AddImageFromData panicked on a large picture: "+cg.Msg, cg.Stack)
			return false
		}
		if err != nil {
			res.Count("add_errors", 1)
			return false
		}
		ledger = append(ledger, &picEntry{serial: serial, data: data, pxW: w, pxH: h, where: "body", via: "AddImageFromData(large-file)"})
		return true
	}
	s1 := gen.MakeImage("png", 900100+c.Case, 5, 5)
	if !add(s1.Data, s1.W, s1.H, 1) || !add(big, small.W, small.H, 2) {
		res.Nontrivial = true
		return res
	}
	note := fmt.Sprintf("pictures: 1 small, 1 of %d bytes", len(big))
	b, err := d.ToBytes()
	if err != nil {
		res.Add("huge-picture/save-fails", "ToBytes failed with a large picture: "+err.Error(), note)
		return res
	}
	c10Check(res, b, ledger, nil, 0, "huge-picture/saved", note)
	d2, err := document.OpenFromMemory(io.NopCloser(bytes.NewReader(b)))
	if err != nil || d2 == nil || d2.Body == nil {
		res.Add("huge-picture/reopen-failed", fmt.Sprintf("own output with a large picture cannot be reopened: %v", err), note)
		return res
	}
	d = d2
	s2 := gen.MakeImage("png", 900200+c.Case, 7, 3)
	add(s2.Data, s2.W, s2.H, 3)
	if b2, err := d.ToBytes(); err == nil {
		c10Check(res, b2, ledger, nil, 0, "huge-picture/saved-after-reopen", note)
	} else {
		res.Add("huge-picture/save-fails", "ToBytes failed after reopening: "+err.Error(), note)
	}
	res.Count("histories_with_a_picture_above_32_MiB", 1)
	res.Nontrivial = true
	res.Sig = fmt.Sprintf("huge|%d", n)
	res.Sample = map[string]interface{}{"case": c.Case, "kind": "large picture", "bytes": len(big)}
	return res
}

func c10Case(c *core.Ctx) *core.Result {
	res := &core.Result{}
	r := caseRng(c)
	document.VerifResetGlobals()
	if c.Case == 11 {
		return c10Huge(c, r)
	}
	var d *document.Document
	foreignMedia := map[string][]byte{}
	foreignBlips := 0
	start := "new"
	if c.Case%5 == 4 {
		// start from a package of another producer that already carries media (any naming pattern)
		f := gen.MakeForeign(rng.Derive(c.Seed, h64("C10foreign"), uint64(c.Case)), gen.ForeignOpts{})
		raw := f.Bytes(rng.Derive(c.Seed, 11, uint64(c.Case)))
		dd, err := document.OpenFromMemory(io.NopCloser(bytes.NewReader(raw)))
		if err == nil && dd != nil && dd.Body != nil {
			d = dd
			start = "opened-foreign"
			fp := opc.Read(raw)
			for name, b := range fp.Parts {
				if strings.HasPrefix(name, "word/media/") {
					foreignMedia[name] = b
				}
			}
			if root, _ := fp.Tree("word/document.xml"); root != nil {
				foreignBlips = len(root.Find(opc.NsA, "blip"))
			}
		}
	}
	if d == nil {
		d = document.New()
		d.AddParagraph("pictures")
	}
	var ledger []*picEntry
	type sharedCfg struct {
		cfg  *document.ImageConfig
		w, h float64
		keep bool
	}
	var sharedCfgs []sharedCfg
	// sibling renders of one template that stay alive: each has its own ledger and is checked at the end
	type sibling struct {
		d      *document.Document
		ledger []*picEntry
	}
	var siblings []*sibling
	var tables []*document.Table
	adoptTables := func() {
		tables = nil
		for _, el := range d.Body.Elements {
			if t, ok := el.(*document.Table); ok {
				tables = append(tables, t)
			}
		}
	}
	adoptTables()
	serial := c.Case * 1000
	var log []string
	n := r.Range(3, tierN(c.Tier, 22, 50))
	cycles := 0
	note := func() string { return "start=" + start + " ; calls: " + strings.Join(tail(log, 16), " ") }
	newImage := func() gen.Image {
		serial++
		return gen.MakeImage([]string{"png", "jpeg", "gif"}[r.Intn(3)], serial, r.Range(1, 40), r.Range(1, 40))
	}
	for i := 0; i < n && len(res.Findings) == 0; i++ {
		switch k := r.Intn(100); {
		case k < 30: // body image
			im := newImage()
			w, h, keep := c10Size(r)
			var cfg *document.ImageConfig
			if len(sharedCfgs) > 0 && r.Chance(1, 4) {
				// the caller keeps one configuration object and passes it for several pictures: each picture is sized from the
				// request as the caller wrote it down, whatever the pictures before it looked like
				sc := sharedCfgs[r.Intn(len(sharedCfgs))]
				cfg, w, h, keep = sc.cfg, sc.w, sc.h, sc.keep
				res.Count("shared_config_reuses", 1)
			} else if w > 0 || h > 0 || r.Bool() {
				cfg = &document.ImageConfig{Position: []document.ImagePosition{document.ImagePositionInline, document.ImagePositionFloatLeft, document.ImagePositionFloatRight, ""}[r.Intn(4)],
					WrapText: []document.ImageWrapText{document.ImageWrapNone, document.ImageWrapSquare, document.ImageWrapTight, document.ImageWrapTopAndBottom, ""}[r.Intn(5)], AltText: gen.SafeString(r)}
				if w > 0 || h > 0 || r.Bool() {
					cfg.Size = &document.ImageSize{Width: w, Height: h, KeepAspectRatio: keep}
				} else {
					w, h, keep = 0, 0, false
				}
				if len(sharedCfgs) < 4 {
					sharedCfgs = append(sharedCfgs, sharedCfg{cfg, w, h, keep})
				}
			}
			e := &picEntry{serial: serial, data: im.Data, pxW: im.W, pxH: im.H, w: w, h: h, keep: keep, where: "body"}
			var err error
			var cg *core.Caught
			if r.Chance(1, 3) {
				name := c10Names[r.Intn(len(c10Names))]
				name = strings.NewReplacer("/", "_", "\\", "_").Replace(name)
				if name == "" || name == ".png" {
					name = "f" + name
				}
				path := filepath.Join(c.WorkDir, fmt.Sprintf("c10-%d-%s", serial, name))
				os.WriteFile(path, im.Data, 0644)
				e.via = "AddImageFromFile"
				cg = core.Catch(func() { _, err = d.AddImageFromFile(path, cfg) })
				os.Remove(path)
			} else {
				e.via = "AddImageFromData"
				name := c10Names[r.Intn(len(c10Names))]
				buf, reuse := callerBuffer(r, res, e, im.Data)
				cg = core.Catch(func() { _, err = d.AddImageFromData(buf, name, imgFormat(im.Format), im.W, im.H, cfg) })
				reuse()
			}
			log = append(log, fmt.Sprintf("%s#%d(%s,%s)", e.via, serial, im.Format, sizeClass(e)))
			if cg != nil {
				res.Add("call/"+cg.Key(), e.via+" panicked: "+cg.Msg, cg.Stack)
				break
			}
			if err == nil {
				ledger = append(ledger, e)
			} else {
				res.Count("add_errors", 1)
			}
		case k < 50: // cell image
			if len(tables) == 0 || r.Chance(1, 5) {
				if t, err := d.AddTable(&document.TableConfig{Rows: r.Range(1, 3), Cols: r.Range(1, 3), Width: 6000}); err == nil && t != nil {
					tables = append(tables, t)
					log = append(log, "AddTable")
				}
				break
			}
			ti := r.Intn(len(tables))
			t := tables[ti]
			row, col := r.Intn(t.GetRowCount()), 0
			if cc := t.GetColumnCount(); cc > 0 {
				col = r.Intn(cc)
			}
			im := newImage()
			w, h, keep := c10Size(r)
			e := &picEntry{serial: serial, data: im.Data, pxW: im.W, pxH: im.H, w: w, h: h, keep: keep, where: fmt.Sprintf("cell:%d/%d/%d", ti, row, col)}
			var err error
			var cg *core.Caught
			switch r.Intn(3) {
			case 0:
				e.via = "AddCellImage(data)"
				buf, reuse := callerBuffer(r, res, e, im.Data)
				cfg := &document.CellImageConfig{Data: buf, Width: w, Height: h, KeepAspectRatio: keep}
				if r.Bool() {
					cfg.Format = imgFormat(im.Format)
				}
				cg = core.Catch(func() { _, err = d.AddCellImage(t, row, col, cfg) })
				reuse()
			case 1:
				e.via = "AddCellImage(file)"
				path := filepath.Join(c.WorkDir, fmt.Sprintf("c10-cell-%d.bin", serial))
				os.WriteFile(path, im.Data, 0644)
				cg = core.Catch(func() {
					_, err = d.AddCellImage(t, row, col, &document.CellImageConfig{FilePath: path, Width: w, Height: h, KeepAspectRatio: keep})
				})
				os.Remove(path)
			case 2:
				e.via = "AddCellImageFromData"
				e.h, e.keep = 0, true
				buf, reuse := callerBuffer(r, res, e, im.Data)
				cg = core.Catch(func() { _, err = d.AddCellImageFromData(t, row, col, buf, w) })
				reuse()
			}
			log = append(log, fmt.Sprintf("%s#%d(%s,%s)@%s", e.via, serial, im.Format, sizeClass(e), e.where))
			if cg != nil {
				res.Add("call/"+cg.Key(), e.via+" panicked: "+cg.Msg, cg.Stack)
				break
			}
			if err == nil {
				ledger = append(ledger, e)
			} else {
				res.Count("add_errors", 1)
			}
		case k < 62: // other relationship-creating calls
			log = append(log, "OtherRelationship")
			core.Catch(func() {
				switch r.Intn(4) {
				case 0:
					d.AddHeader([]document.HeaderFooterType{document.HeaderFooterTypeDefault, document.HeaderFooterTypeFirst, document.HeaderFooterTypeEven}[r.Intn(3)], "h")
				case 1:
					d.AddFooterWithPageNumber(document.HeaderFooterTypeDefault, "f", true)
				case 2:
					d.AddNumberedList("item", 0, document.ListTypeDecimal)
				case 3:
					d.AddFootnote("text", "note")
				}
			})
		case k < 72: // save and check
			if b, err := d.ToBytes(); err == nil {
				c10Check(res, b, ledger, foreignMedia, foreignBlips, "saved", note())
			}
		case k < 86: // save / open cycle
			b, err := d.ToBytes()
			if err != nil {
				break
			}
			c10Check(res, b, ledger, foreignMedia, foreignBlips, "saved", note())
			if len(res.Findings) > 0 {
				break
			}
			d2, oerr := document.OpenFromMemory(io.NopCloser(bytes.NewReader(b)))
			if oerr != nil || d2 == nil || d2.Body == nil {
				res.Add("reopen/open-failed", fmt.Sprintf("own output cannot be reopened: %v", oerr), note())
				break
			}
			d = d2
			adoptTables()
			cycles++
			log = append(log, "save+open")
			if b2, err := d.ToBytes(); err == nil {
				c10Check(res, b2, ledger, foreignMedia, foreignBlips, "reopened", note())
			}
		default: // template placeholders filled with pictures
			names := []string{}
			for j, m := 0, r.Range(1, 3); j < m; j++ {
				nm := fmt.Sprintf("pic%d_%d", serial, j)
				names = append(names, nm)
				d.AddParagraph("{{#image " + nm + "}}")
			}
			eng := document.NewTemplateEngine()
			var d2 *document.Document
			var err error
			var added []*picEntry
			batch := false
			mkData := func() (*document.TemplateData, []*picEntry) {
				data := document.NewTemplateData()
				var ents []*picEntry
				for _, nm := range names {
					im := newImage()
					w, h, keep := c10Size(r)
					var cfg *document.ImageConfig
					if w > 0 || h > 0 {
						cfg = &document.ImageConfig{Size: &document.ImageSize{Width: w, Height: h, KeepAspectRatio: keep}}
					}
					if r.Chance(1, 3) {
						// the data set is a set of defaults merged with the caller's own pictures: the name is on both sides, the picture
						// shown is the one merged in last (given as bytes or as a file), with its own size
						defaults := document.NewTemplateData()
						other := newImage()
						if r.Bool() {
							defaults.SetImageFromData(nm, other.Data, &document.ImageConfig{Size: &document.ImageSize{Width: 11, Height: 13}})
						} else {
							op := filepath.Join(c.WorkDir, fmt.Sprintf("c10-default-%d-%d.%s", c.Case, other.Serial, other.Format))
							os.WriteFile(op, other.Data, 0644)
							defaults.SetImage(nm, op, nil)
						}
						own := document.NewTemplateData()
						if r.Bool() {
							fp := filepath.Join(c.WorkDir, fmt.Sprintf("c10-own-%d-%d.%s", c.Case, im.Serial, im.Format))
							os.WriteFile(fp, im.Data, 0644)
							own.SetImage(nm, fp, cfg)
						} else {
							own.SetImageFromData(nm, im.Data, cfg)
						}
						defaults.Merge(own)
						data.Merge(defaults)
						res.Count("template_pictures_from_merged_data_sets", 1)
					} else {
						data.SetImageFromData(nm, im.Data, cfg)
					}
					ents = append(ents, &picEntry{serial: serial, data: im.Data, pxW: im.W, pxH: im.H, w: w, h: h, keep: keep, where: "template", via: "template-placeholder"})
				}
				return data, ents
			}
			cg := core.Catch(func() {
				if _, err = eng.LoadTemplateFromDocument("t", d); err != nil {
					return
				}
				var data *document.TemplateData
				data, added = mkData()
				if len(siblings) < 3 && r.Bool() {
					// an earlier render of the same template stays alive and is saved only at the end; half of the time it is a
					// batch render: the very same data object is rendered twice and each document must show the pictures itself
					data0, ents0 := data, added
					if r.Bool() {
						data0, ents0 = mkData()
					} else {
						batch = true
					}
					if d0, e0 := eng.RenderTemplateToDocument("t", data0); e0 == nil && d0 != nil && d0.Body != nil {
						siblings = append(siblings, &sibling{d: d0, ledger: append(append([]*picEntry{}, ledger...), ents0...)})
					}
				}
				d2, err = eng.RenderTemplateToDocument("t", data)
			})
			log = append(log, fmt.Sprintf("render-with-%d-image-placeholders", len(names)))
			if batch {
				log = append(log, "batch-render-with-one-data-object")
				res.Count("batch_renders", 1)
			}
			if cg != nil {
				res.Add("render/"+cg.Key(), "rendering image placeholders panicked: "+cg.Msg, cg.Stack)
				break
			}
			if err != nil || d2 == nil || d2.Body == nil {
				res.Count("render_failures", 1)
				// the placeholders stay as text in d; nothing was added
				break
			}
			d = d2
			adoptTables()
			ledger = append(ledger, added...)
			cycles++
		}
	}
	if len(res.Findings) == 0 {
		if b, err := d.ToBytes(); err == nil {
			c10Check(res, b, ledger, foreignMedia, foreignBlips, "saved", note())
		}
		for _, sb := range siblings {
			if b, err := sb.d.ToBytes(); err == nil {
				c10Check(res, b, sb.ledger, foreignMedia, foreignBlips, "saved-sibling-render", note())
				res.Count("sibling_renders_checked", 1)
			}
		}
	}
	res.Count("images_added", int64(len(ledger)))
	res.Count("cycles", int64(cycles))
	res.Nontrivial = len(ledger) >= 2 && res.Stats["pictures_resolved"] > 0
	sort.Strings(log[:0])
	res.Sig = start + "|" + strings.Join(log, ";")
	res.Sample = map[string]interface{}{"case": c.Case, "start": start, "calls": tail(log, 14)}
	return res
}

func init() {
	core.Register(&core.Check{
		ID:    "C10",
		Level: "exploration",
		Rule: "histories of body (AddImageFromData/AddImageFromFile), cell (AddCellImage data/file, AddCellImageFromData) and template-placeholder image additions; every image is a unique generated PNG/JPEG/GIF; original names equal/non-ASCII/extension-less/misleading; size configurations none | W×H | W+keep | H+keep | one dimension without keep | 0.5 mm | 5000 mm; inline and floating; interleaved with header/footer/list/footnote calls, " +
			"save+open cycles, sibling renders of one template that are saved only after later renders and additions (some of them batch renders of one data object), and (one case in five) an opened foreign package that already carries media. At every save the independent reader resolves each a:blip through the main part's relationships to the media bytes and maps it back to the ledger by content: every added image is shown by exactly one picture, in the place it was added to, stored unmodified; wp:extent and a:ext follow the sizing rule within 2 EMU; media of the opened package keep their bytes. " +
			"Non-trivial: >=2 images added and >=1 picture resolved; distinct = call sequence.",
		Cases:         func(t string) int { return tierN(t, 3000, 100000) },
		Run:           c10Case,
		Assume:        []string{"for one dimension without KeepAspectRatio the statement names no rule: pixel size, the aspect-derived size, or the given dimension with the pixel size of the other are all accepted", "negative sizes and a format argument contradicting the data are not generated", "ResizeImage and the other post-hoc mutators are not part of the statement"},
		CaseTimeoutS:  60,
		MinNontrivial: 300,
	})
}
