package props

import (
	"bytes"
	"encoding/json"
	"fmt"
	"io"
	"os"
	"os/exec"
	"path/filepath"
	"regexp"
	"runtime"
	"sort"
	"strings"
	"sync"
	"sync/atomic"

	"github.com/zerx-lab/wordZero/pkg/document"

	"verifharness/internal/canon"
	"verifharness/internal/core"
	"verifharness/internal/deep"
	"verifharness/internal/opc"
	"verifharness/internal/rng"
)

var c07TimeRe = regexp.MustCompile(`<dcterms:(created|modified)[^>]*>[^<]*</dcterms:(created|modified)>`)

// pkgCanonical maps every part of a package to a canonical string (XML parts) or a content hash.
func pkgCanonical(raw []byte) (map[string]string, bool) {
	p := opc.Read(raw)
	if len(p.ZipProbs) > 0 {
		return nil, false
	}
	out := map[string]string{}
	for name, b := range p.Parts {
		if name == "docProps/core.xml" {
			b = c07TimeRe.ReplaceAll(b, []byte("<t/>"))
		}
		if opc.IsXMLName(name) {
			if cs, ok := canon.Bytes(b, nil); ok {
				out[name] = cs
				continue
			}
		}
		out[name] = hashBytes(b)
	}
	return out, true
}

func canonDiff(a, b map[string]string) (string, string) {
	var names []string
	for n := range a {
		names = append(names, n)
	}
	for n := range b {
		if _, ok := a[n]; !ok {
			names = append(names, n)
		}
	}
	sort.Strings(names)
	for _, n := range names {
		x, okx := a[n]
		y, oky := b[n]
		switch {
		case !okx:
			return n, "part only exists in the run beside other documents"
		case !oky:
			return n, "part is missing in the run beside other documents"
		case x != y:
			return n, firstDiff(x, y)
		}
	}
	return "", ""
}

// scriptOutcome is what one script run yields at the public boundary.
type scriptOutcome struct {
	parts    map[string]string
	access   string
	panicked bool
	ops      []string
	saves    []string // what was wrong with the files this script saved on its way (empty = every file held the document's own content)
	nsaves   int
}

type c07Spec struct {
	Seed   uint64
	Plain  bool // no lists / notes
	N      int
	Cold   bool   // biased to code with first-use initialisation (Markdown, formulas, templates, styles)
	Tpl    uint64 // != 0: the document starts as a render of the template document built from this seed
	shared *c07Template
}

// c07Template is a template document loaded into an engine; a group of documents may be rendered from one of them.
type c07Template struct {
	mu     sync.Mutex // renders are serialised: the statement is about the documents, the engine is the business of C17
	eng    *document.TemplateEngine
	images []document.ImageInfo // the pictures of the template document (their ids are carried over to every render)
}

func c07BuildTemplate(seed uint64, workDir string) *c07Template {
	r := rng.New(seed)
	dir := filepath.Join(workDir, fmt.Sprintf("tpl%x", seed))
	os.MkdirAll(dir, 0755)
	defer os.RemoveAll(dir)
	base := NewScript(r, false, dir)
	base.NoReopen = true
	base.Weights = map[string]int{"AddImageFromData": 20, "Header/Footer": 12, "AddParagraph": 6, "AddTable": 3, "Table.content": 6, "Reopen": 0, "RenderAsTemplate": 0, "AddImageFromFile": 2, "Notes": 3, "Lists": 3, "Markdown": 0}
	base.Run(r.Range(0, 14), nil)
	if base.Panic != nil {
		return nil
	}
	base.Doc.AddParagraph("{{x}} {{name}}")
	doc := base.Doc
	if r.Bool() { // a template read from a file: slices sized by the reader
		if b, err := doc.ToBytes(); err == nil {
			if d2, err := document.OpenFromMemory(io.NopCloser(bytes.NewReader(b))); err == nil && d2 != nil && d2.Body != nil {
				doc = d2
			}
		}
	}
	eng := document.NewTemplateEngine()
	if _, err := eng.LoadTemplateFromDocument("base", doc); err != nil {
		return nil
	}
	t := &c07Template{eng: eng}
	for _, im := range base.Images {
		if im != nil {
			t.images = append(t.images, *im)
		}
	}
	return t
}

// c07SaveCheck saves the script's document into dir (which other scripts of the group save into as well) and compares the file
// with the document's own serialisation taken immediately before.
func c07SaveCheck(s *Script, dir, name string, out *scriptOutcome) {
	if s.Panic != nil || s.Doc == nil {
		return
	}
	path := filepath.Join(dir, name)
	var want []byte
	var errB, errS error
	if cg := core.Catch(func() { want, errB = s.Doc.ToBytes(); errS = s.Doc.Save(path) }); cg != nil || errB != nil {
		return
	}
	out.nsaves++
	defer os.Remove(path)
	if errS != nil {
		out.saves = append(out.saves, "Save failed: "+errS.Error())
		return
	}
	fb, err := os.ReadFile(path)
	if err != nil {
		out.saves = append(out.saves, "Save returned nil but the file cannot be read: "+err.Error())
		return
	}
	wp, ok1 := partsOf(want)
	fp, ok2 := partsOf(fb)
	if !ok1 || !ok2 {
		out.saves = append(out.saves, fmt.Sprintf("not a readable package (ToBytes readable=%v, file readable=%v, %d bytes)", ok1, ok2, len(fb)))
		return
	}
	maskCore(wp)
	maskCore(fp)
	if d := sameParts(wp, fp); d != "" {
		out.saves = append(out.saves, "file differs from the document's own ToBytes: "+d)
	}
}

// c07Steps runs k-th operation of the script; every third operation is followed by a save into the group's directory.
func (sp c07Spec) step(s *Script, k int, sharedDir string, idx int, out *scriptOutcome) {
	s.Run(1, nil)
	if k%3 == 2 {
		c07SaveCheck(s, sharedDir, fmt.Sprintf("doc%d-step%d.docx", idx, k), out)
	}
}

func (sp c07Spec) start(workDir string, tag string) *Script {
	dir := filepath.Join(workDir, tag)
	os.MkdirAll(dir, 0755)
	s := NewScript(rng.New(sp.Seed), false, dir)
	s.NoLists = sp.Plain
	s.Weights = map[string]int{"Lists": 10, "Notes": 10, "TOC": 3, "Reopen": 2, "RenderAsTemplate": 2}
	if sp.Cold {
		s.Weights = map[string]int{"Markdown": 14, "AddMathFormula": 8, "RenderAsTemplate": 8, "Styles": 6, "TOC": 4, "Lists": 5, "Notes": 5, "Reopen": 3, "Header/Footer": 5}
	}
	if sp.Tpl != 0 {
		t := sp.shared
		if t == nil {
			t = c07BuildTemplate(sp.Tpl, workDir)
		}
		if t != nil {
			data := document.NewTemplateData()
			data.SetVariable("x", fmt.Sprintf("doc-%x", sp.Seed))
			data.SetVariable("name", "n")
			t.mu.Lock()
			var d *document.Document
			var err error
			cg := core.Catch(func() { d, err = t.eng.RenderTemplateToDocument("base", data) })
			t.mu.Unlock()
			if cg == nil && err == nil && d != nil && d.Body != nil {
				s.adopt(d)
				for i := range t.images { // handles on the pictures the render inherited (copies: a handle is the caller's own object)
					im := t.images[i]
					if im.Config != nil {
						cfg := *im.Config
						im.Config = &cfg
					}
					s.Images = append(s.Images, &im)
				}
				s.Weights = map[string]int{"Image.setters": 12, "AddImageFromData": 24, "AddImageFromFile": 4, "Header/Footer": 14, "Notes": 8, "Lists": 8, "AddParagraph": 4, "Table.content": 6, "AddTable": 3, "Properties": 3, "Reopen": 1, "RenderAsTemplate": 0, "Markdown": 0}
			}
		}
	}
	return s
}

func (sp c07Spec) finish(s *Script, out *scriptOutcome) *scriptOutcome {
	out.ops = s.Log
	if s.Panic != nil {
		out.panicked = true
		return out
	}
	var b []byte
	var err error
	if cg := core.Catch(func() { b, err = s.Doc.ToBytes() }); cg != nil || err != nil {
		out.panicked = true
		return out
	}
	out.parts, _ = pkgCanonical(b)
	core.Catch(func() {
		d := s.Doc
		out.access = fmt.Sprintf("foot=%d end=%d headings=%v paras=%d tables=%d page=%s", d.GetFootnoteCount(), d.GetEndnoteCount(), d.GetHeadingCount(), len(d.Body.GetParagraphs()), len(d.Body.GetTables()), deep.Dump(d.GetPageSettings()))
	})
	os.RemoveAll(s.WorkDir)
	return out
}

func (sp c07Spec) alone(workDir, tag string) *scriptOutcome {
	s := sp.start(workDir, tag)
	out := &scriptOutcome{}
	for k := 0; k < sp.N; k++ {
		sp.step(s, k, s.WorkDir, 0, out)
	}
	return sp.finish(s, out)
}

// c07FreshProcess runs one script in a newly started process and returns its outcome.
func c07FreshProcess(sp c07Spec, workDir string, cs int) *scriptOutcome {
	outs := c07Child("alone", []c07Spec{sp}, filepath.Join(workDir, fmt.Sprintf("c%d-fresh", cs)))
	if len(outs) != 1 {
		return nil
	}
	return outs[0]
}

type c07Wire struct {
	Parts    map[string]string
	Access   string
	Panicked bool
	Ops      []string
	Saves    []string
	NSaves   int
}

// c07Child starts this binary again ("c07child <mode> <workdir>", specs on stdin) and returns the outcomes it prints.
// mode "alone": the scripts one after the other; mode "cold": all scripts at once, each in its own goroutine, as the very
// first thing the new process does with the library (first-use initialisation happens under concurrency). The child
// inherits GORACE, so a race binary reports into the same log directory.
func c07Child(mode string, specs []c07Spec, workDir string) []*scriptOutcome {
	self, err := os.Executable()
	if err != nil {
		return nil
	}
	in, _ := json.Marshal(specs)
	cmd := exec.Command(self, "c07child", mode, workDir)
	cmd.Stdin = bytes.NewReader(in)
	out, err := cmd.Output()
	if err != nil {
		return nil
	}
	var ws []c07Wire
	if json.Unmarshal(out, &ws) != nil || len(ws) != len(specs) {
		return nil
	}
	res := make([]*scriptOutcome, len(ws))
	for i, w := range ws {
		res[i] = &scriptOutcome{parts: w.Parts, access: w.Access, panicked: w.Panicked, ops: w.Ops, saves: w.Saves, nsaves: w.NSaves}
	}
	return res
}

// C07Child is the entry point of the child process (vwork c07child <mode> <workdir>, specs as JSON on stdin).
func C07Child(args []string) {
	var specs []c07Spec
	if err := json.NewDecoder(os.Stdin).Decode(&specs); err != nil || len(args) < 2 {
		os.Exit(2)
	}
	mode, dir := args[0], args[1]
	os.MkdirAll(dir, 0755)
	defer os.RemoveAll(dir)
	outs := make([]*scriptOutcome, len(specs))
	if mode == "cold" {
		outs = c07Concurrent(specs, dir, "cold")
	} else {
		for i, sp := range specs {
			outs[i] = sp.alone(dir, fmt.Sprintf("x%d", i))
		}
	}
	ws := make([]c07Wire, len(outs))
	for i, o := range outs {
		ws[i] = c07Wire{o.parts, o.access, o.panicked, o.ops, o.saves, o.nsaves}
	}
	b, _ := json.Marshal(ws)
	os.Stdout.Write(b)
	os.RemoveAll(dir)
}

// c07Concurrent runs every script in its own goroutine, released together, with yields at the library's hook points.
// what the concurrency monitor saw of the schedule (atomics: the monitor must not become the race it looks for)
var c07InFlight, c07Calls, c07Overlapped, c07HookYields int64

func c07Concurrent(specs []c07Spec, workDir, tag string) []*scriptOutcome {
	document.VerifSetCallback(func(string) { atomic.AddInt64(&c07HookYields, 1); runtime.Gosched() })
	defer document.VerifSetCallback(nil)
	got := make([]*scriptOutcome, len(specs))
	shared := filepath.Join(workDir, tag+"-shared") // all documents of the group are saved into one directory
	os.MkdirAll(shared, 0755)
	defer os.RemoveAll(shared)
	var wg sync.WaitGroup
	start := make(chan struct{})
	for i := range specs {
		wg.Add(1)
		go func(i int) {
			defer wg.Done()
			sp := specs[i]
			<-start
			s := sp.start(workDir, fmt.Sprintf("%s-g%d", tag, i))
			out := &scriptOutcome{}
			for k := 0; k < sp.N; k++ {
				atomic.AddInt64(&c07Calls, 1)
				if atomic.AddInt64(&c07InFlight, 1) > 1 {
					atomic.AddInt64(&c07Overlapped, 1) // this call starts while a call on another document is in progress
				}
				sp.step(s, k, shared, i, out)
				atomic.AddInt64(&c07InFlight, -1)
				runtime.Gosched()
			}
			got[i] = sp.finish(s, out)
		}(i)
	}
	close(start)
	wg.Wait()
	return got
}

func c07Compare(res *core.Result, base, got *scriptOutcome, mode string, plain bool, note string) {
	cls := "registry-script"
	if plain {
		cls = "plain-script"
	}
	res.Count("outcomes_compared", 1)
	if base.panicked || got.panicked {
		if base.panicked != got.panicked {
			res.Add(mode+"/"+cls+"/panics-only-in-one-run", "an API call panicked in one run of the same script but not in the other", note)
		}
		return
	}
	if part, d := canonDiff(base.parts, got.parts); part != "" {
		res.Add(mode+"/"+cls+"/package-differs/"+opc.Class(part), fmt.Sprintf("part %s of a document differs from the same script run alone: %s", part, d), note)
	}
	res.Count("files_saved_beside_others", int64(got.nsaves))
	if len(got.saves) > 0 && len(base.saves) == 0 {
		res.Add(mode+"/"+cls+"/saved-file-is-not-the-document", fmt.Sprintf("%d of %d files saved while other documents were worked on: %s", len(got.saves), got.nsaves, got.saves[0]), note)
	}
	if base.access != got.access {
		res.Add(mode+"/"+cls+"/accessors-differ", fmt.Sprintf("accessor results differ: alone %s, beside others %s", base.access, got.access), note)
	}
}

func c07Case(c *core.Ctx) *core.Result {
	res := &core.Result{}
	r := caseRng(c)
	maxOps := tierN(c.Tier, 24, 60)
	if c.Race {
		maxOps = 14
	}
	nScripts := r.Range(2, 6)
	if c.Race {
		nScripts = r.Range(2, 8)
	}
	// every fifth case: the documents of the group are renders of one template document, then extended by their own scripts
	// every seventh case (race binary: every fourth): the group runs concurrently as the first thing a new process does
	siblings := c.Case%5 == 3
	cold := !siblings && ((!c.Race && c.Case%7 == 2) || (c.Race && c.Case%4 == 1))
	tplSeed := r.U64() | 1
	specs := make([]c07Spec, nScripts)
	for i := range specs {
		specs[i] = c07Spec{Seed: r.U64(), Plain: r.Chance(1, 3), N: r.Range(3, maxOps)}
		if siblings {
			specs[i].Tpl = tplSeed
			specs[i].N = r.Range(2, 10)
		}
		if cold {
			specs[i].Cold = true
			specs[i].Plain = false
		}
	}
	// baselines: each script alone (twice: a script whose own result is not reproducible cannot be judged)
	base := make([]*scriptOutcome, nScripts)
	for i, sp := range specs {
		base[i] = sp.alone(c.WorkDir, fmt.Sprintf("c%d-a%d", c.Case, i))
	}
	note := func(i int) string {
		return fmt.Sprintf("script %d ops: %s", i, strings.Join(tail(base[i].ops, 20), " "))
	}
	if !c.Race && c.Case%4 == 0 {
		// the same script in a process that has never seen another document: state that the library keeps per process
		// (caches, pools, counters) and that has long settled in this worker is invisible to the comparisons below
		if fresh := c07FreshProcess(specs[0], c.WorkDir, c.Case); fresh != nil {
			c07Compare(res, fresh, base[0], "fresh-process-vs-used-process", specs[0].Plain, note(0))
			res.Count("fresh_process_baselines", 1)
		} else {
			res.Count("fresh_process_baseline_failed", 1)
		}
	}
	for i, sp := range specs {
		// the same calls once more: the result may depend on nothing but the calls (the first runs are now "other documents before")
		again := sp.alone(c.WorkDir, fmt.Sprintf("c%d-b%d", c.Case, i))
		c07Compare(res, base[i], again, "repeated", sp.Plain, note(i))
	}
	mode := []string{"sequential", "interleaved", "concurrent"}[c.Case%3]
	if c.Race {
		mode = "concurrent"
	}
	if siblings {
		// in the runs beside each other the documents really come from ONE loaded template
		if shared := c07BuildTemplate(tplSeed, c.WorkDir); shared != nil {
			for i := range specs {
				specs[i].shared = shared
			}
			res.Count("template_sibling_groups", 1)
		}
		if mode == "sequential" {
			mode = "interleaved"
		}
	}
	if cold {
		mode = "cold-concurrent"
	}
	switch mode {
	case "sequential": // T1 ; S ; T2 — S must not care what happened before
		for i, sp := range specs {
			got := sp.alone(c.WorkDir, fmt.Sprintf("c%d-s%d", c.Case, i))
			c07Compare(res, base[i], got, mode, sp.Plain, note(i))
		}
	case "interleaved": // calls of all scripts alternate in one goroutine
		live := make([]*Script, nScripts)
		outs := make([]*scriptOutcome, nScripts)
		shared := filepath.Join(c.WorkDir, fmt.Sprintf("c%d-ishared", c.Case))
		os.MkdirAll(shared, 0755)
		for i, sp := range specs {
			live[i] = sp.start(c.WorkDir, fmt.Sprintf("c%d-i%d", c.Case, i))
			outs[i] = &scriptOutcome{}
		}
		for step := 0; step < maxOps; step++ {
			for i, sp := range specs {
				if step < sp.N {
					sp.step(live[i], step, shared, i, outs[i])
				}
			}
		}
		os.RemoveAll(shared)
		// saved in turn after all edits, first document first
		for i, sp := range specs {
			c07Compare(res, base[i], sp.finish(live[i], outs[i]), mode+c07Sib(siblings), sp.Plain, note(i))
		}
		res.Count("interleaved_groups", 1)
	case "concurrent": // every script in its own goroutine, released together
		got := c07Concurrent(specs, c.WorkDir, fmt.Sprintf("c%d", c.Case))
		res.Count("concurrent_calls", atomic.SwapInt64(&c07Calls, 0))
		res.Count("concurrent_calls_started_while_another_document_was_in_a_call", atomic.SwapInt64(&c07Overlapped, 0))
		res.Count("yields_at_library_hook_points", atomic.SwapInt64(&c07HookYields, 0))
		for i, sp := range specs {
			c07Compare(res, base[i], got[i], mode+c07Sib(siblings), sp.Plain, note(i))
		}
		res.Count("concurrent_groups", 1)
		res.Count("goroutines", int64(nScripts))
	case "cold-concurrent":
		got := c07Child("cold", specs, filepath.Join(c.WorkDir, fmt.Sprintf("c%d-cold", c.Case)))
		if got == nil {
			res.Count("cold_start_child_failed", 1)
			break
		}
		for i, sp := range specs {
			c07Compare(res, base[i], got[i], mode, sp.Plain, note(i))
		}
		res.Count("cold_start_groups", 1)
		res.Count("goroutines", int64(nScripts))
	}
	res.Nontrivial = res.Stats["outcomes_compared"] >= 2
	var sig []string
	for i := range specs {
		sig = append(sig, strings.Join(base[i].ops, ","))
	}
	res.Sig = mode + "|" + strings.Join(sig, "|")
	res.Sample = map[string]interface{}{"case": c.Case, "mode": mode, "scripts": nScripts, "script0_ops": tail(base[0].ops, 12), "script1_ops": tail(base[1].ops, 12)}
	return res
}

func c07Sib(b bool) string {
	if b {
		return "+template-siblings"
	}
	return ""
}

func init() {
	core.Register(&core.Check{
		ID:    "C07",
		Level: "exploration",
		Rule: "2-6 (race binary: 2-8) deterministic API scripts on distinct documents, one third of them 'plain' (no lists/notes), every fifth group made of renders of ONE loaded template document that are then extended by their own scripts; each script is first run alone (own template), then repeated (the other scripts' first runs are then its process history), every fourth case also in a newly started process (state the library keeps per process and that has settled in a long-running worker is only visible against a fresh process), then again (a) after the other scripts in the same process, (b) with the calls of all scripts alternating in one goroutine, (c) each script in its own goroutine released by a barrier with yields at the library's hook points, (d) every seventh case (race binary: every fourth) as (c) but as the very first use of the library in a newly started process, with scripts biased to code that initialises on first use (Markdown with formulas, templates, styles). " +
			"Every part of the resulting package (canonical XML, media by content, docProps time stamps masked) and the accessor results (note counts, heading counts, paragraph/table counts, page settings) must equal the alone baseline. The same concurrent workload runs in the -race binary; every DATA RACE report whose accesses lie in the library is a finding keyed by the pair of innermost library functions. " +
			"Non-trivial: >=2 outcomes compared; distinct = mode + the scripts' call sequences.",
		Cases:          func(t string) int { return tierN(t, 600, 12000) },
		Run:            c07Case,
		RaceCases:      func(t string) int { return tierN(t, 160, 4000) },
		Assume:         []string{"SetGlobalLevel/SetGlobalOutput are configuration and are not called while other goroutines use the library", "the race detector only sees the interleavings that occurred"},
		CrashIsFinding: true,
		CaseTimeoutS:   120,
		MinNontrivial:  100,
	})
}
