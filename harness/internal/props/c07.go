package props

import (
	"encoding/json"
	"fmt"
	"os"
	"os/exec"
	"path/filepath"
	"regexp"
	"runtime"
	"sort"
	"strings"
	"sync"

	"github.com/zerx-lab/wordZero/pkg/document"

	"verifharness/internal/canon"
	"verifharness/internal/core"
	"verifharness/internal/deep"
	"verifharness/internal/opc"
	"verifharness/internal/rng"
)

var c07TimeRe = regexp.MustCompile(`<dcterms:(created|modified)[^>]*>[^<]*</dcterms:(created|modified)>`)

// pkgCanonical maps every part of a package to a canonical string (XML parts) or a content hash.
func pkgCanonical(raw []byte) (map[string]string, bool) {
	p := opc.Read(raw)
	if len(p.ZipProbs) > 0 {
		return nil, false
	}
	out := map[string]string{}
	for name, b := range p.Parts {
		if name == "docProps/core.xml" {
			b = c07TimeRe.ReplaceAll(b, []byte("<t/>"))
		}
		if opc.IsXMLName(name) {
			if cs, ok := canon.Bytes(b, nil); ok {
				out[name] = cs
				continue
			}
		}
		out[name] = hashBytes(b)
	}
	return out, true
}

func canonDiff(a, b map[string]string) (string, string) {
	var names []string
	for n := range a {
		names = append(names, n)
	}
	for n := range b {
		if _, ok := a[n]; !ok {
			names = append(names, n)
		}
	}
	sort.Strings(names)
	for _, n := range names {
		x, okx := a[n]
		y, oky := b[n]
		switch {
		case !okx:
			return n, "part only exists in the run beside other documents"
		case !oky:
			return n, "part is missing in the run beside other documents"
		case x != y:
			return n, firstDiff(x, y)
		}
	}
	return "", ""
}

// scriptOutcome is what one script run yields at the public boundary.
type scriptOutcome struct {
	parts    map[string]string
	access   string
	panicked bool
	ops      []string
}

type c07Spec struct {
	seed  uint64
	plain bool // no lists / notes
	n     int
}

func (sp c07Spec) start(workDir string, tag string) *Script {
	dir := filepath.Join(workDir, tag)
	os.MkdirAll(dir, 0755)
	s := NewScript(rng.New(sp.seed), false, dir)
	s.NoLists = sp.plain
	s.Weights = map[string]int{"Lists": 10, "Notes": 10, "TOC": 3, "Reopen": 2, "RenderAsTemplate": 2}
	return s
}

func (sp c07Spec) finish(s *Script) *scriptOutcome {
	out := &scriptOutcome{ops: s.Log}
	if s.Panic != nil {
		out.panicked = true
		return out
	}
	var b []byte
	var err error
	if cg := core.Catch(func() { b, err = s.Doc.ToBytes() }); cg != nil || err != nil {
		out.panicked = true
		return out
	}
	out.parts, _ = pkgCanonical(b)
	core.Catch(func() {
		d := s.Doc
		out.access = fmt.Sprintf("foot=%d end=%d headings=%v paras=%d tables=%d page=%s", d.GetFootnoteCount(), d.GetEndnoteCount(), d.GetHeadingCount(), len(d.Body.GetParagraphs()), len(d.Body.GetTables()), deep.Dump(d.GetPageSettings()))
	})
	os.RemoveAll(s.WorkDir)
	return out
}

func (sp c07Spec) alone(workDir, tag string) *scriptOutcome {
	s := sp.start(workDir, tag)
	s.Run(sp.n, nil)
	return sp.finish(s)
}

// c07FreshProcess runs one script in a newly started process and returns its outcome.
func c07FreshProcess(sp c07Spec, workDir string, cs int) *scriptOutcome {
	self, err := os.Executable()
	if err != nil {
		return nil
	}
	cmd := exec.Command(self, "c07alone", fmt.Sprint(sp.seed), fmt.Sprint(sp.plain), fmt.Sprint(sp.n), filepath.Join(workDir, fmt.Sprintf("c%d-fresh", cs)))
	out, err := cmd.Output()
	if err != nil {
		return nil
	}
	var o struct {
		Parts    map[string]string
		Access   string
		Panicked bool
	}
	if json.Unmarshal(out, &o) != nil {
		return nil
	}
	return &scriptOutcome{parts: o.Parts, access: o.Access, panicked: o.Panicked}
}

// C07Alone is the entry point of the fresh-process baseline (vwork c07alone <seed> <plain> <n> <workdir>).
func C07Alone(args []string) {
	var sp c07Spec
	fmt.Sscan(args[0], &sp.seed)
	sp.plain = args[1] == "true"
	fmt.Sscan(args[2], &sp.n)
	os.MkdirAll(args[3], 0755)
	o := sp.alone(args[3], "x")
	os.RemoveAll(args[3])
	b, _ := json.Marshal(map[string]interface{}{"Parts": o.parts, "Access": o.access, "Panicked": o.panicked})
	os.Stdout.Write(b)
}

func c07Compare(res *core.Result, base, got *scriptOutcome, mode string, plain bool, note string) {
	cls := "registry-script"
	if plain {
		cls = "plain-script"
	}
	res.Count("outcomes_compared", 1)
	if base.panicked || got.panicked {
		if base.panicked != got.panicked {
			res.Add(mode+"/"+cls+"/panics-only-in-one-run", "an API call panicked in one run of the same script but not in the other", note)
		}
		return
	}
	if part, d := canonDiff(base.parts, got.parts); part != "" {
		res.Add(mode+"/"+cls+"/package-differs/"+opc.Class(part), fmt.Sprintf("part %s of a document differs from the same script run alone: %s", part, d), note)
	}
	if base.access != got.access {
		res.Add(mode+"/"+cls+"/accessors-differ", fmt.Sprintf("accessor results differ: alone %s, beside others %s", base.access, got.access), note)
	}
}

func c07Case(c *core.Ctx) *core.Result {
	res := &core.Result{}
	r := caseRng(c)
	maxOps := tierN(c.Tier, 24, 60)
	if c.Race {
		maxOps = 14
	}
	nScripts := r.Range(2, 6)
	if c.Race {
		nScripts = r.Range(2, 8)
	}
	specs := make([]c07Spec, nScripts)
	for i := range specs {
		specs[i] = c07Spec{seed: r.U64(), plain: r.Chance(1, 3), n: r.Range(3, maxOps)}
	}
	// baselines: each script alone (twice: a script whose own result is not reproducible cannot be judged)
	base := make([]*scriptOutcome, nScripts)
	for i, sp := range specs {
		base[i] = sp.alone(c.WorkDir, fmt.Sprintf("c%d-a%d", c.Case, i))
	}
	note := func(i int) string {
		return fmt.Sprintf("script %d ops: %s", i, strings.Join(tail(base[i].ops, 20), " "))
	}
	if !c.Race && c.Case%4 == 0 {
		// the same script in a process that has never seen another document: state that the library keeps per process
		// (caches, pools, counters) and that has long settled in this worker is invisible to the comparisons below
		if fresh := c07FreshProcess(specs[0], c.WorkDir, c.Case); fresh != nil {
			c07Compare(res, fresh, base[0], "fresh-process-vs-used-process", specs[0].plain, note(0))
			res.Count("fresh_process_baselines", 1)
		} else {
			res.Count("fresh_process_baseline_failed", 1)
		}
	}
	for i, sp := range specs {
		// the same calls once more: the result may depend on nothing but the calls (the first runs are now "other documents before")
		again := sp.alone(c.WorkDir, fmt.Sprintf("c%d-b%d", c.Case, i))
		c07Compare(res, base[i], again, "repeated", sp.plain, note(i))
	}
	mode := []string{"sequential", "interleaved", "concurrent"}[c.Case%3]
	if c.Race {
		mode = "concurrent"
	}
	switch mode {
	case "sequential": // T1 ; S ; T2 — S must not care what happened before
		for i, sp := range specs {
			got := sp.alone(c.WorkDir, fmt.Sprintf("c%d-s%d", c.Case, i))
			c07Compare(res, base[i], got, mode, sp.plain, note(i))
		}
	case "interleaved": // calls of all scripts alternate in one goroutine
		live := make([]*Script, nScripts)
		for i, sp := range specs {
			live[i] = sp.start(c.WorkDir, fmt.Sprintf("c%d-i%d", c.Case, i))
		}
		for step := 0; step < maxOps; step++ {
			for i, sp := range specs {
				if step < sp.n {
					live[i].Run(1, nil)
				}
			}
		}
		for i, sp := range specs {
			c07Compare(res, base[i], sp.finish(live[i]), mode, sp.plain, note(i))
		}
		res.Count("interleaved_groups", 1)
	case "concurrent": // every script in its own goroutine, released together
		document.VerifSetCallback(func(string) { runtime.Gosched() })
		got := make([]*scriptOutcome, nScripts)
		var wg sync.WaitGroup
		start := make(chan struct{})
		for i := range specs {
			wg.Add(1)
			go func(i int) {
				defer wg.Done()
				sp := specs[i]
				s := sp.start(c.WorkDir, fmt.Sprintf("c%d-g%d", c.Case, i))
				<-start
				for k := 0; k < sp.n; k++ {
					s.Run(1, nil)
					runtime.Gosched()
				}
				got[i] = sp.finish(s)
			}(i)
		}
		close(start)
		wg.Wait()
		document.VerifSetCallback(nil)
		for i, sp := range specs {
			c07Compare(res, base[i], got[i], mode, sp.plain, note(i))
		}
		res.Count("concurrent_groups", 1)
		res.Count("goroutines", int64(nScripts))
	}
	res.Nontrivial = res.Stats["outcomes_compared"] >= 2
	var sig []string
	for i := range specs {
		sig = append(sig, strings.Join(base[i].ops, ","))
	}
	res.Sig = mode + "|" + strings.Join(sig, "|")
	res.Sample = map[string]interface{}{"case": c.Case, "mode": mode, "scripts": nScripts, "script0_ops": tail(base[0].ops, 12), "script1_ops": tail(base[1].ops, 12)}
	return res
}

func init() {
	core.Register(&core.Check{
		ID:    "C07",
		Level: "exploration",
		Rule: "2-6 (race binary: 2-8) deterministic API scripts on distinct documents, one third of them 'plain' (no lists/notes); each script is first run alone, then repeated (the other scripts' first runs are then its process history), every fourth case also in a newly started process (state the library keeps per process and that has settled in a long-running worker is only visible against a fresh process), then again (a) after the other scripts in the same process, (b) with the calls of all scripts alternating in one goroutine, (c) each script in its own goroutine released by a barrier with yields at the library's hook points. " +
			"Every part of the resulting package (canonical XML, media by content, docProps time stamps masked) and the accessor results (note counts, heading counts, paragraph/table counts, page settings) must equal the alone baseline. The same concurrent workload runs in the -race binary; every DATA RACE report whose accesses lie in the library is a finding keyed by the pair of innermost library functions. " +
			"Non-trivial: >=2 outcomes compared; distinct = mode + the scripts' call sequences.",
		Cases:          func(t string) int { return tierN(t, 600, 12000) },
		Run:            c07Case,
		RaceCases:      func(t string) int { return tierN(t, 160, 4000) },
		Assume:         []string{"SetGlobalLevel/SetGlobalOutput are configuration and are not called while other goroutines use the library", "the race detector only sees the interleavings that occurred"},
		CrashIsFinding: true,
		CaseTimeoutS:   120,
		MinNontrivial:  100,
	})
}
