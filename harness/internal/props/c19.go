package props

import (
	"fmt"
	"os"
	"path/filepath"
	"regexp"
	"strings"

	"github.com/zerx-lab/wordZero/pkg/document"
	"github.com/zerx-lab/wordZero/pkg/markdown"

	"verifharness/internal/core"
	"verifharness/internal/gen"
	"verifharness/internal/opc"
	"verifharness/internal/rng"
)

// ---- Markdown generated from a tree the generator keeps ----

type mdTok struct {
	tok    string
	em     bool
	strong bool
	code   bool
	strike bool
	link   bool
	math   bool
	block  string // heading1..6 | para | list | task | quote | cell | math
	seq    int    // inline sequence the token belongs to (tokens of one sequence are separated by a space or a soft break)
}

type mdGen struct {
	r               *rng.R
	n               int
	gfm             bool
	toks            []mdTok
	plainHeading    bool // ... and consists of plain words only
	breaksInHeading bool // the heading being written is a setext heading: its words may be separated by line breaks
	feats           map[string]bool
	tables          []mdTable
	code            [][]string // expected lines of every code block
	heads           map[string]int
	seq             int
	decor           []string // literal text around a word that must appear verbatim in the document
	labels          []string // words written in square brackets (literal text: the document defines no link for them)
	math            bool     // formulas are enabled
	vis             strings.Builder
	seqs            []mdSeq // every inline sequence with the text a reader sees
}

// mdSeq is one inline sequence (the content of a heading, paragraph, list item, quote line): its visible text as Markdown
// defines it, and the first token, by which the paragraph that carries it is found.
type mdSeq struct {
	block   string
	visible string
	first   string
	open    bool // a quote line that the next quote line continues
}

type mdTable struct {
	rows   [][]string // cell tokens
	aligns []string
}

func (g *mdGen) word() string { g.n++; return fmt.Sprintf("w%dx", g.n) }

func (g *mdGen) use(f string) { g.feats[f] = true }

// inline emits inline Markdown and records the tokens with their expected formatting.
func (g *mdGen) inline(block string, maxParts int) string {
	r := g.r
	var sb strings.Builder
	parts := r.Range(1, maxParts)
	if g.breaksInHeading && parts < 2 {
		parts = 2
	}
	hadMath := false
	g.seq++
	first := len(g.toks)
	g.vis.Reset()
	defer func() {
		for i := first; i < len(g.toks); i++ {
			g.toks[i].seq = g.seq
		}
		if first < len(g.toks) {
			g.seqs = append(g.seqs, mdSeq{block: block, visible: g.vis.String(), first: g.toks[first].tok})
		}
	}()
	for i := 0; i < parts; i++ {
		if i > 0 {
			if (block == "para" && r.Chance(1, 6)) || (g.breaksInHeading && r.Bool()) {
				sb.WriteString("\n") // soft break
				g.use("soft-break")
			} else {
				sb.WriteString(" ")
			}
			g.vis.WriteString(" ")
		}
		w := g.word()
		t := mdTok{tok: w, block: block}
		k := r.Intn(14)
		if g.plainHeading {
			k = 0 // plain words only
		}
		switch {
		case k < 3:
			if r.Chance(1, 5) {
				// benign punctuation that is plain text in Markdown and has to come through verbatim: ampersands that are not
				// character references, percent and dollar amounts, a reference with too many digits
				d := w + []string{"&copy=1", "&lt b", " R&D", "&reg=eu&lang=en", " &#12345678;", " 50%", " AT&T", "&amp", " a&b;c"}[r.Intn(9)]
				if r.Chance(1, 4) {
					// a word in square brackets: without a link definition for it in THIS document it is literal text
					d = "[" + w + "]"
					g.labels = append(g.labels, w)
					g.use("bracketed-word")
				}
				g.decor = append(g.decor, d)
				sb.WriteString(d)
				g.vis.WriteString(d)
				g.use("literal-ampersand-text")
				break
			}
			sb.WriteString(w)
			g.vis.WriteString(w)
		case k == 5:
			t.em = true
			sb.WriteString("*" + w + "*")
			g.vis.WriteString(w)
			g.use("emphasis")
		case k == 6:
			t.strong = true
			sb.WriteString("**" + w + "**")
			g.vis.WriteString(w)
			g.use("strong")
		case k == 7:
			t.code = true
			sb.WriteString("`" + w + "`")
			g.vis.WriteString(w)
			g.use("code-span")
		case k == 8 && g.gfm:
			t.strike = true
			sb.WriteString("~~" + w + "~~")
			g.vis.WriteString(w)
			g.use("strike")
		case k == 9:
			t.link = true
			sb.WriteString("[" + w + "](http://example.com/" + w + ")")
			g.vis.WriteString(w)
			g.use("link")
		case k == 10:
			// nested emphasis: strong around emphasis
			w2 := g.word()
			t.strong = true
			g.toks = append(g.toks, t)
			t = mdTok{tok: w2, block: block, strong: true, em: true}
			sb.WriteString("**" + w + " *" + w2 + "***")
			g.vis.WriteString(w + " " + w2)
			g.use("nested-emphasis")
		case k == 11 && r.Chance(1, 3):
			// a bare address without a scheme: a link with GFM (the address as written is the visible text), plain text without
			t.link = g.gfm
			sb.WriteString("www.example.com/" + w)
			g.vis.WriteString("www.example.com/" + w)
			g.use("bare-www-address")
		case k == 11:
			// autolink: the URL is the visible text
			t.link = true
			t.tok = "http://example.com/" + w
			sb.WriteString("<http://example.com/" + w + ">")
			g.vis.WriteString("http://example.com/" + w)
			g.use("autolink")
		case k == 13 && !hadMath:
			// inline formula: a math-font run when math is enabled, literal text otherwise
			// (one per inline sequence: how two '$...$' next to each other pair up is the math extension's business)
			hadMath = true
			t.math = true
			sb.WriteString("$" + w + "$")
			if g.math {
				g.vis.WriteString(w)
			} else {
				g.vis.WriteString("$" + w + "$")
			}
			g.use("inline-math")
		case k == 4 || k == 3:
			// span tree: formatting spans of different kinds nested in each other with text before, between and after the inner spans
			g.toks = append(g.toks, g.span(&sb, block, 0, mdTok{block: block})...)
			g.use("span-tree")
			continue
		case k == 12:
			// emphasis around a code span
			t.em, t.code = true, true
			sb.WriteString("*`" + w + "`*")
			g.vis.WriteString(w)
			g.use("code-in-emphasis")
		default:
			sb.WriteString(w)
			g.vis.WriteString(w)
		}
		g.toks = append(g.toks, t)
	}
	return sb.String()
}

// span writes one formatting span (emphasis, strong, strike-through or link) whose content is a sequence of words, code spans and
// spans of other kinds; the delimiter character alternates with the depth so that delimiter runs stay unambiguous. The returned
// tokens carry the union of the formats of all enclosing spans.
func (g *mdGen) span(sb *strings.Builder, block string, depth int, outer mdTok) []mdTok {
	r := g.r
	var kinds []string
	if !outer.em {
		kinds = append(kinds, "em")
	}
	if !outer.strong {
		kinds = append(kinds, "strong")
	}
	if !outer.strike && g.gfm {
		kinds = append(kinds, "strike")
	}
	if !outer.link {
		kinds = append(kinds, "link")
	}
	kind := kinds[r.Intn(len(kinds))]
	in := outer
	open, close := "", ""
	ch := []string{"*", "_"}[depth%2]
	switch kind {
	case "em":
		in.em = true
		open, close = ch, ch
	case "strong":
		in.strong = true
		open, close = ch+ch, ch+ch
	case "strike":
		in.strike = true
		open, close = "~~", "~~"
	case "link":
		in.link = true
		open, close = "[", fmt.Sprintf("](http://example.com/l%d)", g.n)
	}
	var toks []mdTok
	sb.WriteString(open)
	n := r.Range(1, 3)
	hasInner := false
	for i := 0; i < n; i++ {
		if i > 0 {
			sb.WriteString(" ")
			g.vis.WriteString(" ")
		}
		switch k := r.Intn(6); {
		case k < 2 && depth < 2 && len(kinds) > 1:
			toks = append(toks, g.span(sb, block, depth+1, in)...)
			hasInner = true
		case k == 2:
			w := g.word()
			t := in
			t.tok, t.code = w, true
			sb.WriteString("`" + w + "`")
			g.vis.WriteString(w)
			toks = append(toks, t)
		default:
			w := g.word()
			t := in
			t.tok = w
			sb.WriteString(w)
			g.vis.WriteString(w)
			toks = append(toks, t)
		}
	}
	if hasInner {
		g.use("span-tree-nested")
		if r.Bool() {
			// text of the outer span after the inner one: it carries the outer formats only
			w := g.word()
			t := in
			t.tok = w
			sb.WriteString(" " + w)
			g.vis.WriteString(" " + w)
			toks = append(toks, t)
		}
	}
	sb.WriteString(close)
	return toks
}

func (g *mdGen) list(depth int, ordered bool) string {
	r := g.r
	var sb strings.Builder
	n := r.Range(1, 3)
	for i := 0; i < n; i++ {
		indent := strings.Repeat("   ", depth)
		marker := "- "
		if ordered {
			marker = fmt.Sprintf("%d. ", i+1)
		}
		sb.WriteString(indent + marker + g.inline("list", 3) + "\n")
		if depth < 2 && r.Chance(1, 4) {
			g.use("nested-list")
			sb.WriteString(g.list(depth+1, r.Bool()))
		}
	}
	return sb.String()
}

func (g *mdGen) document() string {
	r := g.r
	var sb strings.Builder
	blocks := r.Range(2, 8)
	lastIndented := false   // two indented chunks in a row are one code block in Markdown
	afterContainer := false // the previous block was a list / task list / quote: an indented chunk would continue it
	for b := 0; b < blocks; b++ {
		k := r.Intn(13)
		wasContainer := afterContainer
		afterContainer = k == 5 || (k == 6 && g.gfm) || k == 7 || k == 12
		if k != 8 {
			lastIndented = false
		}
		switch {
		case k < 2:
			lvl := r.Range(1, 6)
			start := len(g.toks)
			nseq := len(g.seqs)
			// headings of level 1 and 2 may be written setext style (underlined), and then their text may run over several lines
			setext := lvl <= 2 && r.Chance(1, 3)
			g.breaksInHeading = setext
			g.plainHeading = setext && r.Bool()
			htext := g.inline(fmt.Sprintf("heading%d", lvl), 3)
			g.breaksInHeading, g.plainHeading = false, false
			if len(g.seqs) == nseq+1 && r.Chance(1, 4) {
				// heading text that ends in a brace group: plain text in the Markdown this library reads (there is no attribute syntax)
				tail := []string{"struct{}", "{}", "{#intro}", "{.note}", "{k=v}", "obj {#a .b}", "{ }", "set {1, 2}"}[r.Intn(8)]
				htext += " " + tail
				g.seqs[nseq].visible += " " + tail
				g.decor = append(g.decor, tail)
				g.use("heading-ending-in-braces")
			}
			if setext {
				sb.WriteString(htext + "\n" + strings.Repeat([]string{"=", "-"}[lvl-1], r.Range(3, 9)) + "\n\n")
				g.use("setext-heading")
				if strings.Contains(htext, "\n") {
					g.use("setext-heading-over-several-lines")
				}
			} else {
				sb.WriteString(strings.Repeat("#", lvl) + " " + htext + "\n\n")
			}
			for _, t := range g.toks[start:] {
				g.heads[t.tok] = lvl
			}
			g.use("heading")
		case k < 5:
			sb.WriteString(g.inline("para", 6) + "\n\n")
		case k == 5:
			sb.WriteString(g.list(0, r.Bool()) + "\n")
			g.use("list")
		case k == 6 && g.gfm:
			for i, n := 0, r.Range(1, 3); i < n; i++ {
				sb.WriteString([]string{"- [ ] ", "- [x] "}[r.Intn(2)] + g.inline("task", 3) + "\n")
			}
			sb.WriteString("\n")
			g.use("task-list")
		case k == 7:
			for i, n := 0, r.Range(1, 2); i < n; i++ {
				at := len(g.seqs)
				sb.WriteString("> " + g.inline("quote", 3) + "\n")
				if i > 0 && at > 0 && len(g.seqs) == at+1 && g.seqs[at-1].open {
					// the previous quote line was not closed by an empty quote line: both lines are one paragraph
					g.seqs[at-1].visible += " " + g.seqs[at].visible
					g.seqs[at-1].open = false
					g.seqs = g.seqs[:at]
					at--
				}
				if r.Bool() {
					sb.WriteString(">\n")
				} else if len(g.seqs) == at+1 {
					g.seqs[at].open = true
				}
			}
			sb.WriteString("\n")
			g.use("blockquote")
		case k == 8:
			// code: every line has leading white space of blanks and tabs; what is left of it after the block's own indentation
			// (the four columns of an indented block, the 0-3 columns of a fence's indentation) is part of the code line - a tab
			// that is only partly used up leaves its remaining columns as blanks (CommonMark 2.2, 4.4, 4.5)
			var bodies, leads []string
			for i, n := 0, r.Range(1, 4); i < n; i++ {
				a, b := g.word(), g.word()
				g.toks = append(g.toks, mdTok{tok: a, block: "codeblock"}, mdTok{tok: b, block: "codeblock"})
				bodies = append(bodies, a+" := "+b)
				lead := strings.Repeat(" ", r.Intn(3)*2)
				if r.Chance(1, 4) {
					lead = []string{"\t", " \t", "  \t", "\t\t", "\t  ", "   \t", "    \t"}[r.Intn(7)]
					g.use("code-line-with-tab-indentation")
				}
				leads = append(leads, lead)
			}
			var lines, src []string
			if r.Bool() || wasContainer || lastIndented {
				fi := 0
				if !wasContainer && r.Chance(1, 3) {
					fi = r.Range(1, 3)
					g.use("fenced-code-with-indented-fence")
				}
				fence := []string{"```", "~~~"}[r.Intn(2)]
				// the info string names a language for highlighting, whatever it says the block is code
				info := []string{"go", "", "go", "", "math", "Math", "latex", "tex", "mermaid", "text", "math display", "go {.numberLines}", "diff"}[r.Intn(13)]
				if info != "" && info != "go" {
					g.use("fence-info:" + strings.Fields(strings.ToLower(info))[0])
				}
				for i := range bodies {
					raw := leads[i] + bodies[i]
					if fi > 0 && r.Bool() {
						raw = strings.Repeat(" ", fi) + raw // the line is indented like its fence
					}
					src = append(src, raw)
					lines = append(lines, stripIndentColumns(raw, fi))
				}
				ci := 0
				if fi > 0 {
					ci = r.Intn(4)
				}
				sb.WriteString(strings.Repeat(" ", fi) + fence + info + "\n" + strings.Join(src, "\n") + "\n" + strings.Repeat(" ", ci) + fence + "\n\n")
				g.use("fenced-code")
				lastIndented = false
			} else {
				lastIndented = true
				for i := range bodies {
					pre := "    "
					if r.Chance(1, 4) {
						pre = []string{"\t", " \t", "  \t", "   \t"}[r.Intn(4)]
						g.use("indented-code-with-tab")
					}
					raw := pre + leads[i] + bodies[i]
					src = append(src, raw)
					lines = append(lines, stripIndentColumns(raw, 4))
				}
				sb.WriteString(strings.Join(src, "\n") + "\n\n")
				g.use("indented-code")
			}
			g.code = append(g.code, lines)
		case k == 9 && r.Bool():
			w := g.word()
			g.toks = append(g.toks, mdTok{tok: w, block: "mathblock", math: true})
			sb.WriteString("$$\n" + w + "\n$$\n")
			if r.Chance(1, 3) {
				// a second display formula directly after the first, without a blank line in between
				w2 := g.word()
				g.toks = append(g.toks, mdTok{tok: w2, block: "mathblock", math: true})
				sb.WriteString("$$\n" + w2 + "\n$$\n")
				g.use("math-blocks-in-a-row")
			}
			sb.WriteString("\n")
			g.use("math-block")
		case k == 9:
			sb.WriteString("---\n\n")
			g.use("thematic-break")
		case k == 10 && g.gfm:
			cols, rows := r.Range(1, 4), r.Range(0, 3) // rows = 0: a table that consists of its header row only
			if r.Chance(1, 15) {
				cols, rows = r.Range(58, 72), r.Range(0, 2) // a very wide table (around the 63 columns a word processor shows)
				g.use("table-of-58-to-72-columns")
			}
			t := mdTable{}
			var hdr, sep []string
			var hrow []string
			for c := 0; c < cols; c++ {
				w := g.word()
				hrow = append(hrow, w)
				hdr = append(hdr, w)
				a := []string{"left", "center", "right", ""}[r.Intn(4)]
				t.aligns = append(t.aligns, a)
				sep = append(sep, map[string]string{"left": ":---", "center": ":---:", "right": "---:", "": "---"}[a])
				g.toks = append(g.toks, mdTok{tok: w, block: "cell"})
			}
			t.rows = append(t.rows, hrow)
			sb.WriteString("| " + strings.Join(hdr, " | ") + " |\n| " + strings.Join(sep, " | ") + " |\n")
			for i := 0; i < rows; i++ {
				var row []string
				var src []string
				for c := 0; c < cols; c++ {
					w := g.word()
					if r.Chance(1, 4) {
						// a body cell that is only partly formatted: plain text beside emphasis, code or strike-through
						w2 := g.word()
						t2 := mdTok{tok: w2, block: "cellfmt"}
						md := ""
						switch k := r.Intn(4); {
						case k == 0:
							t2.strong, md = true, "**"+w2+"**"
						case k == 1:
							t2.em, md = true, "*"+w2+"*"
						case k == 2:
							t2.code, md = true, "`"+w2+"`"
						case g.gfm:
							t2.strike, md = true, "~~"+w2+"~~"
						default:
							t2.em, md = true, "_"+w2+"_"
						}
						g.use("partly-formatted-cell")
						if r.Bool() {
							row = append(row, w+" "+w2)
							src = append(src, w+" "+md)
							g.toks = append(g.toks, mdTok{tok: w, block: "cellfmt"}, t2)
						} else {
							row = append(row, w2+" "+w)
							src = append(src, md+" "+w)
							g.toks = append(g.toks, t2, mdTok{tok: w, block: "cellfmt"})
						}
						continue
					}
					row = append(row, w)
					src = append(src, w)
					g.toks = append(g.toks, mdTok{tok: w, block: "cell"})
				}
				t.rows = append(t.rows, row)
				sb.WriteString("| " + strings.Join(src, " | ") + " |\n")
			}
			sb.WriteString("\n")
			g.tables = append(g.tables, t)
			g.use("table")
		case k == 12:
			// blocks nested in blocks: code and lists inside a quote, code and a quote inside a list item
			codeLines := func(prefix string) string {
				var lines, src []string
				for i, n := 0, r.Range(1, 3); i < n; i++ {
					a, b := g.word(), g.word()
					g.toks = append(g.toks, mdTok{tok: a, block: "codeblock"}, mdTok{tok: b, block: "codeblock"})
					ln := strings.Repeat(" ", r.Intn(3)*2) + a + " := " + b
					lines = append(lines, ln)
					src = append(src, prefix+ln)
				}
				g.code = append(g.code, lines)
				return strings.Join(src, "\n") + "\n"
			}
			switch r.Intn(4) {
			case 0:
				sb.WriteString("> " + g.inline("quote", 3) + "\n>\n> ```\n" + codeLines("> ") + "> ```\n\n")
				g.use("code-in-quote")
			case 1:
				sb.WriteString("> " + g.inline("quote", 3) + "\n>\n")
				for i, n := 0, r.Range(1, 3); i < n; i++ {
					sb.WriteString("> - " + g.inline("list", 3) + "\n")
				}
				sb.WriteString("\n")
				g.use("list-in-quote")
			case 2:
				marker := []string{"- ", "1. "}[r.Intn(2)]
				pad := strings.Repeat(" ", len(marker))
				sb.WriteString(marker + g.inline("list", 3) + "\n\n" + pad + "```\n" + codeLines(pad) + pad + "```\n\n")
				g.use("code-in-list-item")
			default:
				marker := []string{"- ", "1. "}[r.Intn(2)]
				pad := strings.Repeat(" ", len(marker))
				sb.WriteString(marker + g.inline("list", 3) + "\n\n" + pad + "> " + g.inline("quote", 3) + "\n\n")
				g.use("quote-in-list-item")
			}
		default:
			sb.WriteString(g.inline("para", 4) + "\n\n")
		}
	}
	return sb.String()
}

// stripIndentColumns removes up to n columns of leading white space from a line; tab stops are every four columns, and a tab
// that reaches beyond the n-th column leaves the columns it still covers as blanks.
func stripIndentColumns(line string, n int) string {
	col, i := 0, 0
	for i < len(line) && col < n {
		switch line[i] {
		case ' ':
			col++
			i++
		case '\t':
			w := 4 - col%4
			if col+w <= n {
				col += w
				i++
			} else {
				return strings.Repeat(" ", col+w-n) + line[i+1:]
			}
		default:
			return line[i:]
		}
	}
	return line[i:]
}

type docTok struct {
	tok                        string
	bold, italic, strike, code bool
	mathFont                   bool
	style                      string
	inTable                    bool
}

var wordTokRe = regexp.MustCompile(`http://example\.com/w\d+x|w\d+x`)

// tokensOf lists the generator's tokens in the order they appear in the document body, with the formatting of
// the run that carries them and the style of their paragraph.
func tokensOf(d *document.Document) []docTok {
	var out []docTok
	para := func(p *document.Paragraph, inTable bool) {
		style := ""
		if p.Properties != nil && p.Properties.ParagraphStyle != nil {
			style = p.Properties.ParagraphStyle.Val
		}
		for _, r := range p.Runs {
			for _, m := range wordTokRe.FindAllString(r.Text.Content, -1) {
				t := docTok{tok: m, style: style, inTable: inTable}
				if rp := r.Properties; rp != nil {
					t.bold, t.italic, t.strike = rp.Bold != nil, rp.Italic != nil, rp.Strike != nil
					t.code = rp.FontFamily != nil && strings.Contains(rp.FontFamily.ASCII, "Consolas")
					t.mathFont = rp.FontFamily != nil && strings.Contains(rp.FontFamily.ASCII, "Math")
				}
				out = append(out, t)
			}
		}
	}
	for _, el := range d.Body.Elements {
		switch v := el.(type) {
		case *document.Paragraph:
			para(v, false)
		case *document.Table:
			for i := range v.Rows {
				for j := range v.Rows[i].Cells {
					for k := range v.Rows[i].Cells[j].Paragraphs {
						para(&v.Rows[i].Cells[j].Paragraphs[k], true)
					}
				}
			}
		}
	}
	return out
}

func c19Options(r *rng.R, mask int) *markdown.ConvertOptions {
	o := markdown.DefaultOptions()
	o.EnableGFM = mask&1 != 0
	o.EnableTables = mask&2 != 0
	o.EnableTaskList = mask&4 != 0
	o.EnableMath = mask&8 != 0
	o.EnableFootnotes = mask&16 != 0
	o.GenerateTOC = mask&32 != 0
	o.TOCMaxLevel = r.Intn(8)
	return o
}

func c19Fidelity(c *core.Ctx, r *rng.R) *core.Result {
	res := &core.Result{}
	mask := r.Intn(64)
	opts := c19Options(r, mask)
	g := &mdGen{r: r, gfm: opts.EnableGFM, math: opts.EnableMath, feats: map[string]bool{}, heads: map[string]int{}}
	src := g.document()
	if r.Chance(1, 12) {
		// a paragraph written on one very long physical line (text pasted from a word processor, no hard wraps)
		w := g.word()
		filler := strings.Repeat([]string{"zq ", "长行 ", "ab cd "}[r.Intn(3)], []int{3000, 11000, 23000}[r.Intn(3)])
		g.toks = append(g.toks, mdTok{tok: w, block: "para"})
		g.seqs = append(g.seqs, mdSeq{block: "para", visible: w + " " + filler, first: w})
		src += w + " " + strings.TrimRight(filler, " ") + "\n\n"
		g.use(fmt.Sprintf("physical-line-of-%d-KiB", (len(filler)+len(w)+1)>>10))
		// and something behind it
		src += g.inline("para", 3) + "\n"
	}
	var d *document.Document
	var err error
	convMode := ""
	defer func() {
		// findings of a conversion that shared its converter with another one carry the way it was shared
		if convMode != "" {
			for i := range res.Findings {
				res.Findings[i].Key = "converter-shared:" + convMode + "/" + res.Findings[i].Key
			}
		}
	}()
	entry := "ConvertString"
	if r.Chance(1, 4) {
		entry = "ConvertFile"
	}
	if cg := core.Catch(func() {
		if entry == "ConvertFile" {
			// the file entry point: the Markdown is read from a file, the document is the package ConvertFile writes
			in := filepath.Join(c.WorkDir, fmt.Sprintf("fid%d.md", c.Case))
			out := filepath.Join(c.WorkDir, fmt.Sprintf("fid%d.docx", c.Case))
			defer os.Remove(in)
			defer os.Remove(out)
			if err = os.WriteFile(in, []byte(src), 0644); err != nil {
				return
			}
			o2 := *opts
			if err = markdown.NewConverter(&o2).ConvertFile(in, out, &o2); err != nil {
				return
			}
			d, err = document.Open(out)
			return
		}
		conv := markdown.NewConverter(opts)
		switch r.Intn(8) {
		case 0:
			// the options are given with the call, on a converter that was built with other ones: the call's options decide
			// how this text is read and shown (the statement holds under every combination of options, however they are passed)
			other := c19Options(r, r.Intn(64))
			convMode = "options-given-with-the-call"
			res.Count("conversions_with_options_given_with_the_call", 1)
			d, err = markdown.NewConverter(other).ConvertString(src, opts)
			return
		case 1:
			// an earlier conversion on this converter named other options for itself; this one names none and gets the
			// converter's own: a conversion depends on its own input and options only
			other := c19Options(r, r.Intn(64))
			conv.ConvertString("Earlier document\n\n| a | b |\n|---|---|\n| c | d |\n\nInline $x^2$ and ~~old~~ www.example.com\n\n- [ ] task\n", other)
			convMode = "after-a-call-that-named-other-options"
			res.Count("conversions_after_a_call_that_named_other_options", 1)
			d, err = conv.ConvertString(src, nil)
			return
		}
		if len(g.labels) > 0 && r.Bool() {
			// the converter has been used before, for a document that defines links for the very labels this one uses as plain
			// bracketed text: a conversion depends on its own input only
			primer := "Earlier document.\n\n"
			for _, l := range g.labels {
				primer += "[" + l + "]: http://example.com/earlier/" + l + "\n"
			}
			conv.ConvertString(primer+"\nSee ["+g.labels[0]+"].\n", nil)
			res.Count("conversions_on_a_converter_used_before", 1)
		}
		d, err = conv.ConvertString(src, nil)
	}); cg != nil {
		res.Add("fidelity/convert/"+cg.Key(), entry+" panicked on generated Markdown: "+cg.Msg, cg.Stack, src)
		return res
	}
	if err != nil || d == nil {
		res.Add("fidelity/convert-error", fmt.Sprintf("conversion of well-formed Markdown through %s failed: %v", entry, err), lastStr(src, 2000))
		return res
	}
	res.Count("entry:"+entry, 1)
	optNote := fmt.Sprintf("options: gfm=%v tables=%v tasks=%v math=%v footnotes=%v toc=%v/%d", opts.EnableGFM, opts.EnableTables, opts.EnableTaskList, opts.EnableMath, opts.EnableFootnotes, opts.GenerateTOC, opts.TOCMaxLevel)
	got := tokensOf(d)
	res.Count("documents_converted", 1)
	res.Count("tokens_expected", int64(len(g.toks)))
	// 1. same visible text in the same order: the token sequence
	var ws, gs []string
	for _, t := range g.toks {
		ws = append(ws, t.tok)
	}
	for _, t := range got {
		gs = append(gs, t.tok)
	}
	if strings.Join(ws, " ") != strings.Join(gs, " ") {
		// diagnose: which construct's tokens are missing / duplicated / moved
		have := map[string]int{}
		for _, t := range gs {
			have[t]++
		}
		cls := map[string]bool{}
		for _, t := range g.toks {
			what := ""
			switch {
			case have[t.tok] == 0:
				what = "lost"
			case have[t.tok] > 1:
				what = "duplicated"
			}
			if what != "" {
				kind := t.block
				if strings.HasPrefix(kind, "heading") {
					kind = "heading"
				}
				if strings.HasPrefix(t.tok, "http") {
					kind += "+autolink"
				}
				if kind == "cell" && !opts.EnableTables {
					kind = "cell(tables-disabled)"
				}
				cls[what+":"+kind] = true
			}
		}
		var keys []string
		for k := range cls {
			keys = append(keys, k)
		}
		if len(keys) == 0 {
			keys = []string{"order-changed"}
		}
		sortStrings(keys)
		res.Add("fidelity/text/"+strings.Join(keys, "+"), fmt.Sprintf("visible text differs: expected tokens %v, document has %v", ws, gs), optNote, src)
		return res
	}
	// 2. formatting and block mapping
	for i, t := range g.toks {
		x := got[i]
		res.Count("tokens_compared", 1)
		if lvl, ok := g.heads[t.tok]; ok {
			if x.style != fmt.Sprintf("Heading%d", lvl) {
				res.Add("fidelity/heading-style", fmt.Sprintf("heading level %d text %s sits in a paragraph with style %q", lvl, t.tok, x.style), optNote, src)
			}
			// bold/italic of heading text may come from the heading style; what the inline markup asks for has to be there
			if (t.em && !x.italic) || (t.strong && !x.bold) || (t.strike && !x.strike) || (t.code && !x.code) {
				res.Add("fidelity/format/heading-inline-format-lost"+nestedCls(t), fmt.Sprintf("heading text %s (em=%v strong=%v strike=%v code=%v) is carried by a run with bold=%v italic=%v strike=%v code=%v", t.tok, t.em, t.strong, t.strike, t.code, x.bold, x.italic, x.strike, x.code), optNote, src)
			}
			continue
		}
		if t.block == "cell" || t.block == "codeblock" {
			continue // cell formatting is outside the statement (dimensions, text, alignment); code lines are compared below
		}
		ctx := t.block
		if t.em && !x.italic {
			res.Add("fidelity/format/emphasis-not-italic/"+ctx+nestedCls(t), fmt.Sprintf("emphasised %s is not carried by an italic run", t.tok), optNote, src)
		}
		if t.strong && !x.bold {
			res.Add("fidelity/format/strong-not-bold/"+ctx+nestedCls(t), fmt.Sprintf("strong %s is not carried by a bold run", t.tok), optNote, src)
		}
		if t.code && !x.code {
			res.Add("fidelity/format/code-not-code-font/"+ctx+nestedCls(t), fmt.Sprintf("code span %s is not carried by a code-font run", t.tok), optNote, src)
		}
		if t.math && opts.EnableMath && !x.mathFont {
			res.Add("fidelity/format/formula-not-in-math-font/"+ctx, fmt.Sprintf("formula %s is not carried by a math-font run although math is enabled", t.tok), optNote, src)
		}
		if t.math && !opts.EnableMath && x.mathFont {
			res.Add("fidelity/format/formula-rendered-although-math-disabled/"+ctx, fmt.Sprintf("$%s$ is rendered as a formula although math is disabled", t.tok), optNote, src)
		}
		if t.strike && !x.strike {
			res.Add("fidelity/format/strike-not-struck/"+ctx, fmt.Sprintf("struck %s is not carried by a strike run", t.tok), optNote, src)
		}
		// formatting must not leak either: a token carries exactly the formats of the spans that enclose it
		if (t.em || t.strong || t.strike) && ((!t.em && x.italic) || (!t.strong && x.bold) || (!t.strike && x.strike)) {
			res.Add("fidelity/format/extra-formatting/"+ctx+nestedCls(t), fmt.Sprintf("%s (em=%v strong=%v strike=%v) is carried by a run with bold=%v italic=%v strike=%v", t.tok, t.em, t.strong, t.strike, x.bold, x.italic, x.strike), optNote, src)
		}
		if !t.em && !t.strong && !t.strike && (x.bold || x.italic || x.strike) {
			res.Add("fidelity/format/plain-text-formatted/"+ctx, fmt.Sprintf("plain %s is carried by a formatted run (bold=%v italic=%v strike=%v)", t.tok, x.bold, x.italic, x.strike), optNote, src)
		}
	}
	// 2b. words that were separated by a space or a soft break stay separated
	var paraTexts []string
	for _, p := range d.Body.GetParagraphs() {
		var sb strings.Builder
		for _, rr := range p.Runs {
			sb.WriteString(rr.Text.Content)
		}
		paraTexts = append(paraTexts, sb.String())
	}
	// 2a. the paragraph that carries an inline sequence shows exactly the text Markdown defines for it (white space aside):
	// nothing dropped, nothing invented; list and task items may have the renderer's glyph in front
	nows := func(s string) string { return strings.Join(strings.Fields(s), "") }
	for _, sq := range g.seqs {
		if sq.block == "cell" || sq.block == "cellfmt" {
			continue
		}
		for _, pt := range paraTexts {
			if !strings.Contains(pt, sq.first) {
				continue
			}
			res.Count("paragraph_texts_compared_with_the_source's_visible_text", 1)
			have, want := nows(pt), nows(sq.visible)
			ok := have == want
			if sq.block == "list" || sq.block == "task" {
				ok = strings.HasSuffix(have, want) && len([]rune(have))-len([]rune(want)) <= 4
			}
			if !ok {
				kind := sq.block
				if strings.HasPrefix(kind, "heading") {
					kind = "heading"
				}
				res.Add("fidelity/text/visible-text-differs/"+kind, fmt.Sprintf("the %s shows %q, the Markdown says %q", kind, pt, sq.visible), optNote, src)
			}
			break
		}
	}
	// 2c. literal text with ampersands, percent signs etc. is neither decoded nor dropped
	allText := strings.Join(paraTexts, "\n")
	for _, tb := range d.Body.GetTables() {
		for i := range tb.Rows {
			for j := range tb.Rows[i].Cells {
				for _, p := range tb.Rows[i].Cells[j].Paragraphs {
					for _, rr := range p.Runs {
						allText += rr.Text.Content
					}
					allText += "\n"
				}
			}
		}
	}
	for _, dec := range g.decor {
		res.Count("literal_texts_checked", 1)
		if !strings.Contains(allText, dec) {
			res.Add("fidelity/text/literal-text-changed", fmt.Sprintf("the literal text %q of the Markdown source is not in the document as written", dec), optNote, src)
			break
		}
	}
	for i := 0; i+1 < len(g.toks); i++ {
		a, b := g.toks[i], g.toks[i+1]
		if a.seq == 0 || a.seq != b.seq {
			continue
		}
		for _, pt := range paraTexts {
			ia := strings.Index(pt, a.tok)
			if ia < 0 {
				continue
			}
			ib := strings.Index(pt[ia+len(a.tok):], b.tok)
			if ib < 0 {
				continue
			}
			res.Count("word_separations_checked", 1)
			if !strings.ContainsAny(pt[ia+len(a.tok):ia+len(a.tok)+ib], " \t\n") {
				res.Add("fidelity/text/words-run-together/"+a.block, fmt.Sprintf("%s and %s were separated by white space or a soft break in the Markdown but are adjacent in the document: %q", a.tok, b.tok, pt), optNote, src)
			}
			break
		}
	}
	// 3. code blocks keep lines and indentation
	var codeParas []string
	for _, p := range d.Body.GetParagraphs() {
		if p.Properties != nil && p.Properties.ParagraphStyle != nil && p.Properties.ParagraphStyle.Val == "CodeBlock" {
			var sb strings.Builder
			for _, r := range p.Runs {
				sb.WriteString(r.Text.Content)
			}
			codeParas = append(codeParas, sb.String())
		}
	}
	var wantCode []string
	for _, blk := range g.code {
		wantCode = append(wantCode, blk...)
	}
	if fmt.Sprintf("%q", wantCode) != fmt.Sprintf("%q", codeParas) {
		res.Add("fidelity/code-lines", fmt.Sprintf("code lines %q, expected %q", codeParas, wantCode), optNote, src)
	}
	// 4. tables keep dimensions, cell text and column alignment
	if opts.EnableTables {
		tbls := d.Body.GetTables()
		if len(tbls) != len(g.tables) {
			res.Add("fidelity/table-count", fmt.Sprintf("%d tables, expected %d", len(tbls), len(g.tables)), optNote, src)
		} else {
			for ti, want := range g.tables {
				t := tbls[ti]
				if t.GetRowCount() != len(want.rows) || t.GetColumnCount() != len(want.rows[0]) {
					res.Add("fidelity/table-dimensions", fmt.Sprintf("table %d is %dx%d, expected %dx%d", ti, t.GetRowCount(), t.GetColumnCount(), len(want.rows), len(want.rows[0])), optNote, src)
					continue
				}
				for ri, row := range want.rows {
					for ci, w := range row {
						txt, _ := t.GetCellText(ri, ci)
						if strings.TrimSpace(txt) != w {
							res.Add("fidelity/table-cell-text", fmt.Sprintf("table %d cell (%d,%d) is %q, expected %q", ti, ri, ci, txt, w), optNote, src)
						}
						if a := want.aligns[ci]; a != "" {
							cell, _ := t.GetCell(ri, ci)
							gotA := ""
							if cell != nil && len(cell.Paragraphs) > 0 && cell.Paragraphs[0].Properties != nil && cell.Paragraphs[0].Properties.Justification != nil {
								gotA = cell.Paragraphs[0].Properties.Justification.Val
							}
							if gotA != a {
								res.Add("fidelity/table-column-alignment", fmt.Sprintf("table %d cell (%d,%d): alignment %q, column is %s-aligned", ti, ri, ci, gotA, a), optNote, src)
							}
						}
						res.Count("table_cells_compared", 1)
					}
				}
			}
		}
	}
	// the converted document also saves to a well-formed package
	if b, err := d.ToBytes(); err == nil {
		if probs := opc.Read(b).CheckC01(); len(probs) > 0 {
			res.Add("fidelity/package/"+probs[0].Key, probs[0].Detail, src)
		}
	}
	var feats []string
	for f := range g.feats {
		feats = append(feats, f)
	}
	sortStrings(feats)
	for _, f := range feats {
		res.Count("construct:"+f, 1)
	}
	res.Nontrivial = len(g.toks) >= 3
	res.Sig = fmt.Sprintf("fid|%d|%s", mask, src)
	res.Sample = map[string]interface{}{"case": c.Case, "kind": "fidelity", "markdown": src, "options_mask": mask}
	return res
}

// c19Batch converts two or three generated files that live in different directories in one BatchConvert call (one
// converter, one options object or none) and each of them alone with a converter of its own: what a file becomes
// depends on that file and the options, not on the files converted before it.
func c19Batch(c *core.Ctx, r *rng.R) *core.Result {
	res := &core.Result{}
	mask := r.Intn(64)
	opts := c19Options(r, mask)
	root := filepath.Join(c.WorkDir, fmt.Sprintf("batch%d", c.Case))
	defer os.RemoveAll(root)
	n := r.Range(2, 3)
	var inputs, srcs []string
	for i := 0; i < n; i++ {
		g := &mdGen{r: r, gfm: opts.EnableGFM, math: opts.EnableMath, feats: map[string]bool{}, heads: map[string]int{}}
		src := g.document()
		// pictures named relative to the file, without a description and with one
		src += "\n![](" + []string{"pic.png", "img/pic.png", "./p.png"}[r.Intn(3)] + ")\n\nText with ![alt" + fmt.Sprint(i) + "](fig.png) inside.\n"
		dir := filepath.Join(root, fmt.Sprintf("dir%d", i))
		if err := os.MkdirAll(dir, 0755); err != nil {
			res.Inconcl = "cannot create scratch directory: " + err.Error()
			return res
		}
		in := filepath.Join(dir, fmt.Sprintf("file%d.md", i))
		writeFile(in, []byte(src))
		inputs = append(inputs, in)
		srcs = append(srcs, src)
	}
	how := []string{"no-options", "options-with-the-call", "options-at-construction"}[r.Intn(3)]
	texts := func(path string) (string, error) {
		d, err := document.Open(path)
		if err != nil {
			return "", err
		}
		var sb strings.Builder
		for _, el := range d.Body.Elements {
			switch v := el.(type) {
			case *document.Paragraph:
				for _, rr := range v.Runs {
					sb.WriteString(rr.Text.Content)
				}
				sb.WriteString("\n")
			case *document.Table:
				sb.WriteString("<table>\n")
				for i := range v.Rows {
					for j := range v.Rows[i].Cells {
						for _, p := range v.Rows[i].Cells[j].Paragraphs {
							for _, rr := range p.Runs {
								sb.WriteString(rr.Text.Content)
							}
						}
						sb.WriteString("|")
					}
					sb.WriteString("\n")
				}
			}
		}
		return sb.String(), nil
	}
	build := func() (*markdown.Converter, *markdown.ConvertOptions) {
		o := *opts
		switch how {
		case "no-options":
			return markdown.NewConverter(nil), nil
		case "options-with-the-call":
			return markdown.NewConverter(nil), &o
		}
		return markdown.NewConverter(&o), nil
	}
	outDir := filepath.Join(root, "out")
	var err error
	if cg := core.Catch(func() { conv, callOpts := build(); err = conv.BatchConvert(inputs, outDir, callOpts) }); cg != nil {
		res.Add("independence/batch-convert/"+cg.Key(), "BatchConvert panicked on generated Markdown: "+cg.Msg, cg.Stack, srcs[0])
		return res
	}
	if err != nil {
		res.Add("independence/batch-convert/error", fmt.Sprintf("BatchConvert of %d generated files failed: %v", n, err), srcs[0])
		return res
	}
	for i, in := range inputs {
		aloneOut := filepath.Join(root, fmt.Sprintf("alone%d.docx", i))
		if cg := core.Catch(func() { conv, callOpts := build(); err = conv.ConvertFile(in, aloneOut, callOpts) }); cg != nil || err != nil {
			res.Add("independence/batch-convert/alone-conversion-fails", fmt.Sprintf("file %d converts in a batch but not alone: %v %v", i, err, cg), srcs[i])
			return res
		}
		got, e1 := texts(filepath.Join(outDir, fmt.Sprintf("file%d.docx", i)))
		want, e2 := texts(aloneOut)
		if e1 != nil || e2 != nil {
			res.Add("independence/batch-convert/output-unreadable", fmt.Sprintf("file %d: batch output: %v, alone output: %v", i, e1, e2), srcs[i])
			return res
		}
		res.Count("batch_files_compared_with_their_conversion_alone", 1)
		if got != want {
			pos := "first-file"
			if i > 0 {
				pos = "later-file"
			}
			res.Add("independence/batch-convert/"+how+"/"+pos+"/text-differs-from-conversion-alone", fmt.Sprintf("file %d of a batch of %d (files in different directories): in the batch %q, alone %q", i, n, lastStr(got, 600), lastStr(want, 600)), srcs[i])
		}
	}
	res.Count("batches:"+how, 1)
	res.Nontrivial = true
	res.Sig = fmt.Sprintf("batch|%d|%s|%x", mask, how, h64(strings.Join(srcs, "\x00")))
	res.Sample = map[string]interface{}{"case": c.Case, "kind": "batch", "files": n, "options": how, "options_mask": mask}
	return res
}

func nestedCls(t mdTok) string {
	if (t.em && t.strong) || (t.em && t.code) {
		return "/nested"
	}
	return ""
}

// ---- totality ----

func hostileMD(r *rng.R) []byte {
	deep := func(s string, n int) string { return strings.Repeat(s, n) }
	switch r.Intn(16) {
	case 0:
		return []byte(gen.RandomRunes(r, r.Range(0, 400)))
	case 1:
		b := make([]byte, r.Range(0, 600))
		for i := range b {
			b[i] = byte(r.Intn(256))
		}
		return b
	case 2:
		return []byte(deep(">", r.Range(100, 10000)) + " x")
	case 3:
		return []byte(deep("* ", r.Range(100, 5000)) + "x")
	case 4:
		return []byte(deep("[", r.Range(100, 10000)) + "x" + deep("]", r.Range(0, 100)))
	case 5:
		return []byte(deep("*a_b*_", r.Range(100, 3000)))
	case 6:
		cols := r.Range(1, 300)
		return []byte("|" + deep("a|", cols) + "\n|" + deep("-|", cols) + "\n" + deep("|"+deep("x|", cols)+"\n", r.Range(1, 200)))
	case 7:
		return []byte("```\nunterminated " + gen.HostileString(r))
	case 8:
		return []byte("$$\n\\frac{" + deep("\\frac{a}{", r.Range(1, 200)) + "b" + deep("}", r.Range(0, 300)) + "\n")
	case 9:
		return []byte("$" + deep("\\sqrt[", r.Range(1, 100)) + deep("{", r.Range(1, 100)) + gen.HostileString(r) + "$ and $$" + gen.HostileString(r))
	case 10:
		return []byte("text[^1]\n\n[^1]: " + deep("[^1]", r.Range(1, 2000)))
	case 11:
		return []byte(deep("- [ ] ", r.Range(1, 3000)) + "\n" + deep("  - [x] y\n", r.Range(1, 500)))
	case 12:
		return []byte(deep("#", r.Range(1, 20)) + " " + gen.HostileString(r) + "\n" + deep("=", r.Range(0, 50)) + "\n" + deep("-", r.Range(0, 50)))
	case 13:
		return []byte("<" + gen.HostileString(r) + ">\n<!--" + deep("-", r.Range(0, 1000)) + "\n<![CDATA[" + gen.HostileString(r))
	case 14:
		return []byte("![" + gen.HostileString(r) + "](" + gen.HostileString(r) + ")\n[ref]: <" + gen.HostileString(r) + "> '" + gen.HostileString(r))
	}
	// generated Markdown mutated at the byte level
	g := &mdGen{r: r, gfm: true, feats: map[string]bool{}, heads: map[string]int{}}
	b := []byte(g.document())
	for i, n := 0, r.Range(1, 12); i < n && len(b) > 0; i++ {
		switch r.Intn(3) {
		case 0:
			b[r.Intn(len(b))] = byte(r.Intn(256))
		case 1:
			p := r.Intn(len(b))
			b = append(b[:p], b[p+1:]...)
		case 2:
			p := r.Intn(len(b))
			const meta = "*_`[]()|#>$~\\\n"
			b = append(b[:p], append([]byte{meta[r.Intn(len(meta))]}, b[p:]...)...)
		}
	}
	return b
}

func c19Totality(c *core.Ctx, r *rng.R) *core.Result {
	res := &core.Result{}
	in := hostileMD(r)
	mask := r.Intn(64)
	opts := c19Options(r, mask)
	// the input is on disk before the call (a death of the process must leave the witness)
	path := fmt.Sprintf("%s/c19-input-%d.md", c.WorkDir, c.Case)
	writeFile(path, in)
	defer removeFile(path)
	var d *document.Document
	var err error
	cls := fmt.Sprintf("mask=%d", mask)
	_ = cls
	if cg := core.Catch(func() { d, err = markdown.NewConverter(opts).ConvertBytes(in, nil) }); cg != nil {
		res.Add("totality/ConvertBytes/"+cg.Key(), "ConvertBytes panicked: "+cg.Msg, cg.Stack, fmt.Sprintf("input (%d bytes): %q", len(in), lastStr(string(in), 300)))
		return res
	}
	res.Count("inputs_converted", 1)
	if err == nil && d != nil {
		var b []byte
		if cg := core.Catch(func() { b, err = d.ToBytes() }); cg != nil {
			res.Add("totality/ToBytes/"+cg.Key(), "saving the converted document panicked: "+cg.Msg, cg.Stack)
			return res
		}
		if err == nil {
			for _, p := range opc.Read(b).CheckC01() {
				res.Add("totality/package/"+p.Key, p.Detail, fmt.Sprintf("input (%d bytes): %q", len(in), lastStr(string(in), 300)))
			}
			res.Count("packages_checked", 1)
		}
	} else {
		res.Count("conversion_errors", 1)
	}
	if r.Chance(1, 8) {
		// the formula path on its own
		var omml string
		if cg := core.Catch(func() {
			omml, _ = markdown.LaTeXToOMMLString(string(in), r.Bool())
			d2 := document.New()
			d2.AddMathFormula(omml, r.Bool())
			if b, e := d2.ToBytes(); e == nil {
				for _, p := range opc.Read(b).CheckC01() {
					res.Add("totality/formula-package/"+p.Key, p.Detail)
				}
			}
		}); cg != nil {
			res.Add("totality/LaTeXToOMML/"+cg.Key(), "LaTeXToOMMLString/AddMathFormula panicked: "+cg.Msg, cg.Stack)
		}
		res.Count("formula_conversions", 1)
	}
	res.Nontrivial = true
	res.Sig = fmt.Sprintf("tot|%d|%x", mask, h64(string(in)))
	res.Sample = map[string]interface{}{"case": c.Case, "kind": "totality", "input_bytes": len(in), "input_head": lastStr(string(in), 80), "options_mask": mask}
	return res
}

func init() {
	core.Register(&core.Check{
		ID:    "C19",
		Level: "exploration",
		Rule: "two kinds of cases under every combination of {GFM, tables, task lists, math, footnotes, TOC} and TOC level 0-7. Totality (2 of 3 cases): hostile inputs (random runes, random bytes, 100-10000-deep >/*/[ nesting, pathological emphasis runs, wide/long tables, unterminated fences, deeply nested \\frac/\\sqrt, footnote loops, huge task lists, setext/ATX mixes, raw HTML/CDATA, hostile link/image targets, byte-mutated generated Markdown), written to disk before ConvertBytes; no panic, no hang (watchdog + isolated retry), result saves to a well-formed package; LaTeXToOMMLString -> AddMathFormula on the same inputs. " +
			"Fidelity (1 of 3; one case in four through ConvertFile, i.e. Markdown read from a file and the document re-read from the package ConvertFile wrote; one in twelve with a paragraph on one physical line of 9-130 KiB followed by more text): Markdown printed from a block/inline tree (headings 1-6, paragraphs with emphasis/strong/code/strike/links/autolinks/bare www addresses/soft breaks and span trees (spans of different kinds nested up to three deep with text before, between and after the inner spans), bullet/ordered/nested lists, task lists, block quotes, fenced code (``` or ~~~, fence indented by 0-3 columns, closing fence indented independently) and indented code whose lines start with blanks and tabs in any mix (expected line = the source line minus the block's own indentation columns, a partly used tab leaving blanks), thematic breaks, blocks nested in blocks (a fenced code block or a list inside a quote, a fenced code block or a quote inside a bullet/ordered list item), tables with alignments, also tables that consist of their header row only) whose words are unique tokens: the document's token sequence equals the tree's, the paragraph carrying an inline sequence shows exactly the visible text Markdown defines for it (white space aside; nothing dropped, nothing invented), heading tokens sit in Heading<n> paragraphs, every token is carried by a run with exactly the italic/bold/strike formats of the spans enclosing it (code: code font), code blocks keep lines and indentation, tables keep dimensions, cell text and column alignment. One fidelity case in four shares its converter: the options are given with the call on a converter built with other options (the call's options decide), or an earlier call on the same converter named other options (this call, naming none, gets the converter's own). One fidelity case in ten is a batch: two or three generated files in different directories, each with pictures named relative to the file, converted by one BatchConvert call (options absent / given with the call / given at construction) and each alone by a converter of its own - the texts must agree. Non-trivial: >=3 tokens (fidelity) / every totality input / every batch; distinct = options + input.",
		Cases: func(t string) int { return tierN(t, 4500, 400000) },
		Run: func(c *core.Ctx) *core.Result {
			r := caseRng(c)
			document.VerifResetGlobals()
			if c.Case%3 == 2 {
				if c.Case%30 == 2 {
					return c19Batch(c, r)
				}
				return c19Fidelity(c, r)
			}
			return c19Totality(c, r)
		},
		Assume:         []string{"whitespace, list glyphs and check-box glyphs the renderer adds, URLs of links, formula display conversion and block structure of nested list items are not compared", "run formatting inside table cells is not compared (cells: dimensions, text and alignment); heading text must carry the formats its inline markup asks for, additional bold/italic from the heading style is accepted"},
		CrashIsFinding: true,
		CaseTimeoutS:   30,
		MinNontrivial:  500,
	})
}

func writeFile(path string, b []byte) { _ = os.WriteFile(path, b, 0644) }
func removeFile(path string)          { _ = os.Remove(path) }
