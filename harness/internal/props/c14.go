package props

import (
	"fmt"
	"reflect"
	"sort"
	"strings"

	"github.com/zerx-lab/wordZero/pkg/style"

	"verifharness/internal/core"
	"verifharness/internal/deep"
	"verifharness/internal/rng"
)

// c14attr names one formatting element of a style: a pointer field of ParagraphProperties ("p") or RunProperties ("r").
// The list is taken from the library's own struct definitions by reflection, so an attribute added later is covered too.
type c14attr struct {
	group string
	name  string
	idx   int
}

func c14Attrs() []c14attr {
	var out []c14attr
	for _, g := range []struct {
		g string
		t reflect.Type
	}{{"p", reflect.TypeOf(style.ParagraphProperties{})}, {"r", reflect.TypeOf(style.RunProperties{})}} {
		for i := 0; i < g.t.NumField(); i++ {
			f := g.t.Field(i)
			if f.Name == "XMLName" || f.Type.Kind() != reflect.Ptr {
				continue
			}
			out = append(out, c14attr{g.g, f.Name, i})
		}
	}
	return out
}

// attrVal returns the pointer stored for attribute a in st (invalid Value if the container or the pointer is nil).
func attrVal(st *style.Style, a c14attr) reflect.Value {
	var c reflect.Value
	if a.group == "p" {
		if st.ParagraphPr == nil {
			return reflect.Value{}
		}
		c = reflect.ValueOf(st.ParagraphPr).Elem()
	} else {
		if st.RunPr == nil {
			return reflect.Value{}
		}
		c = reflect.ValueOf(st.RunPr).Elem()
	}
	f := c.Field(a.idx)
	if f.IsNil() {
		return reflect.Value{}
	}
	return f
}

func attrDump(st *style.Style, a c14attr) string {
	v := attrVal(st, a)
	if !v.IsValid() {
		return ""
	}
	return deep.Dump(v.Interface())
}

// fillStruct allocates a value for a pointer-to-struct type and tags every string in it.
func fillStruct(t reflect.Type, tag string, r *rng.R, depth int) reflect.Value {
	p := reflect.New(t.Elem())
	e := p.Elem()
	for i := 0; i < e.NumField(); i++ {
		f := e.Type().Field(i)
		if f.Name == "XMLName" || f.PkgPath != "" {
			continue
		}
		switch f.Type.Kind() {
		case reflect.String:
			if r.Chance(5, 6) {
				e.Field(i).SetString(tag + "." + f.Name)
			}
		case reflect.Ptr:
			if f.Type.Elem().Kind() == reflect.Struct && depth < 3 && r.Bool() {
				e.Field(i).Set(fillStruct(f.Type, tag+"."+f.Name, r, depth+1))
			}
		case reflect.Bool:
			e.Field(i).SetBool(r.Bool())
		}
	}
	return p
}

func setAttr(st *style.Style, a c14attr, tag string, r *rng.R) {
	var c reflect.Value
	if a.group == "p" {
		if st.ParagraphPr == nil {
			st.ParagraphPr = &style.ParagraphProperties{}
		}
		c = reflect.ValueOf(st.ParagraphPr).Elem()
	} else {
		if st.RunPr == nil {
			st.RunPr = &style.RunProperties{}
		}
		c = reflect.ValueOf(st.RunPr).Elem()
	}
	f := c.Field(a.idx)
	f.Set(fillStruct(f.Type(), tag+"."+a.name, r, 0))
}

// refResolve walks the based-on chain of id with a visited set: per attribute the first definer wins.
// class: acyclic | missing-parent | cyclic.
func refResolve(reg map[string]*style.Style, id string, attrs []c14attr) (vals map[string]string, owner map[string]string, class string, chain []string) {
	vals = map[string]string{}
	owner = map[string]string{}
	class = "acyclic"
	visited := map[string]bool{}
	cur := id
	for {
		st := reg[cur]
		if st == nil {
			class = "missing-parent"
			return
		}
		if visited[cur] {
			class = "cyclic"
			return
		}
		visited[cur] = true
		chain = append(chain, cur)
		for _, a := range attrs {
			k := a.group + "." + a.name
			if _, ok := vals[k]; ok {
				continue
			}
			if d := attrDump(st, a); d != "" {
				vals[k] = d
				owner[k] = cur
			}
		}
		if st.BasedOn == nil {
			return
		}
		cur = st.BasedOn.Val
	}
}

func regOf(sm *style.StyleManager) map[string]*style.Style {
	m := map[string]*style.Style{}
	for _, s := range sm.GetAllStyles() {
		m[s.StyleID] = s
	}
	return m
}

// leafExpect converts the attribute pointer of the nearest definer into the leaf values ApplyStyleToXML is documented to report.
func c14MapLeaves(m map[string]interface{}) map[string]string {
	out := map[string]string{}
	var rec func(prefix string, v interface{})
	rec = func(prefix string, v interface{}) {
		switch x := v.(type) {
		case map[string]interface{}:
			for k, vv := range x {
				rec(prefix+"/"+k, vv)
			}
		case map[string]string:
			if len(x) == 0 {
				out[prefix] = "{}"
			}
			for k, vv := range x {
				out[prefix+"/"+k] = vv
			}
		default:
			out[prefix] = fmt.Sprint(v)
		}
	}
	rec("", m)
	return out
}

func c14ExpectLeaves(reg map[string]*style.Style, id string, attrs []c14attr) map[string]string {
	_, owner, _, _ := refResolve(reg, id, attrs)
	out := map[string]string{}
	get := func(group, name string) reflect.Value {
		k := group + "." + name
		o, ok := owner[k]
		if !ok {
			return reflect.Value{}
		}
		for _, a := range attrs {
			if a.group == group && a.name == name {
				return attrVal(reg[o], a)
			}
		}
		return reflect.Value{}
	}
	strs := func(prefix string, v reflect.Value, fields map[string]string) {
		if !v.IsValid() {
			return
		}
		n := 0
		for fn, key := range fields {
			s := v.Elem().FieldByName(fn).String()
			if s != "" {
				out[prefix+"/"+key] = s
				n++
			}
		}
		if n == 0 {
			out[prefix] = "{}"
		}
	}
	strs("/paragraphProperties/spacing", get("p", "Spacing"), map[string]string{"Before": "before", "After": "after", "Line": "line", "LineRule": "lineRule"})
	strs("/paragraphProperties/indentation", get("p", "Indentation"), map[string]string{"FirstLine": "firstLine", "Left": "left", "Right": "right"})
	if v := get("p", "Justification"); v.IsValid() {
		out["/paragraphProperties/justification"] = v.Elem().FieldByName("Val").String()
	}
	if v := get("p", "OutlineLevel"); v.IsValid() {
		out["/paragraphProperties/outlineLevel"] = v.Elem().FieldByName("Val").String()
	}
	for _, f := range [][2]string{{"Bold", "bold"}, {"Italic", "italic"}, {"Strike", "strike"}} {
		if v := get("r", f[0]); v.IsValid() {
			out["/runProperties/"+f[1]] = "true"
		}
	}
	for _, f := range [][2]string{{"Underline", "underline"}, {"FontSize", "fontSize"}, {"Color", "color"}, {"Highlight", "highlight"}} {
		if v := get("r", f[0]); v.IsValid() {
			out["/runProperties/"+f[1]] = v.Elem().FieldByName("Val").String()
		}
	}
	strs("/runProperties/fontFamily", get("r", "FontFamily"), map[string]string{"ASCII": "ascii", "EastAsia": "eastAsia", "HAnsi": "hAnsi", "CS": "cs"})
	return out
}

func c14Case(c *core.Ctx) *core.Result {
	r := caseRng(c)
	res := &core.Result{}
	attrs := c14Attrs()
	sm := style.NewStyleManager()
	keepPredefined := true
	var ids []string
	shape := "random"
	var sampleEdges []string

	nExh := len(attrs) * 4 * 3
	if c.Case < nExh {
		// exhaustive part: attribute × depth of the nearest definer (0..3) × noise variant
		a := attrs[c.Case%len(attrs)]
		depth := (c.Case / len(attrs)) % 4
		noise := c.Case / (len(attrs) * 4)
		shape = fmt.Sprintf("chain4/%s.%s/definer-depth=%d/noise=%d", a.group, a.name, depth, noise)
		keepPredefined = noise == 2
		for i := 0; i < 4; i++ {
			ids = append(ids, fmt.Sprintf("s%d", i))
		}
		for i := 0; i < 4; i++ {
			st := &style.Style{Type: "paragraph", StyleID: ids[i], Name: &style.StyleName{Val: "name " + ids[i]}, CustomStyle: true}
			if i < 3 {
				st.BasedOn = &style.BasedOn{Val: ids[i+1]}
			}
			if i >= depth {
				setAttr(st, a, ids[i], r)
			}
			for _, o := range attrs {
				if o == a {
					continue
				}
				if noise == 1 || (noise == 2 && r.Chance(1, 3)) {
					setAttr(st, o, ids[i], r)
				}
			}
			if noise == 0 && i < depth && r.Bool() {
				// empty containers on the way must not stop the search
				if a.group == "p" {
					st.ParagraphPr = &style.ParagraphProperties{}
				} else {
					st.RunPr = &style.RunProperties{}
				}
			}
			sm.AddStyle(st)
		}
	} else {
		n := r.Range(1, 12)
		longChain := r.Chance(1, 12)
		if longChain {
			n = r.Range(13, 80) // resolution depth must not be bounded by anything but the chain itself
		}
		keepPredefined = r.Bool()
		for i := 0; i < n; i++ {
			ids = append(ids, fmt.Sprintf("s%d", i))
		}
		shapes := []string{"chain", "forest", "cycle", "self-loop", "missing-parent", "chain-into-cycle", "random"}
		shape = shapes[r.Intn(len(shapes))]
		if longChain {
			shape = []string{"chain", "chain-into-cycle"}[r.Intn(2)]
		}
		parent := make([]string, n)
		switch shape {
		case "chain":
			for i := 0; i+1 < n; i++ {
				parent[i] = ids[i+1]
			}
		case "forest":
			for i := 1; i < n; i++ {
				if r.Chance(4, 5) {
					parent[i] = ids[r.Intn(i)]
				}
			}
		case "cycle":
			k := r.Range(2, n)
			if k > n {
				k = n
			}
			for i := 0; i < k; i++ {
				parent[i] = ids[(i+1)%k]
			}
			for i := k; i < n; i++ {
				parent[i] = ids[r.Intn(n)]
			}
		case "self-loop":
			x := r.Intn(n)
			for i := 0; i < n; i++ {
				if i != x && r.Chance(2, 3) {
					parent[i] = ids[r.Intn(n)]
				}
			}
			parent[x] = ids[x]
		case "missing-parent":
			for i := 0; i < n; i++ {
				switch r.Intn(3) {
				case 0:
					parent[i] = "ghost" + fmt.Sprint(r.Intn(3))
				case 1:
					if i > 0 {
						parent[i] = ids[r.Intn(i)]
					}
				}
			}
		case "chain-into-cycle":
			for i := 0; i+1 < n; i++ {
				parent[i] = ids[i+1]
			}
			parent[n-1] = ids[r.Intn(n)]
		default:
			for i := 0; i < n; i++ {
				switch r.Intn(5) {
				case 0:
				case 1:
					parent[i] = r.Pick([]string{"Normal", "Heading1", "Title", "ghost"})
				default:
					parent[i] = ids[r.Intn(n)]
				}
			}
		}
		density := r.Range(1, 6)
		if longChain {
			density = 0 // attributes only at the far end of the chain (set below)
		}
		for i := 0; i < n; i++ {
			st := &style.Style{Type: r.Pick([]string{"paragraph", "character", "paragraph"}), StyleID: ids[i], Name: &style.StyleName{Val: "name " + ids[i]}, CustomStyle: true}
			if parent[i] != "" {
				st.BasedOn = &style.BasedOn{Val: parent[i]}
				sampleEdges = append(sampleEdges, ids[i]+"->"+parent[i])
			}
			for _, a := range attrs {
				if r.Chance(density, 7) || (longChain && i >= n-3 && r.Bool()) {
					setAttr(st, a, ids[i], r)
				}
			}
			if r.Chance(1, 8) {
				sm.CreateCustomStyle(ids[i], "via API", style.StyleTypeParagraph, parent[i])
				if s := sm.GetStyle(ids[i]); s != nil {
					s.ParagraphPr, s.RunPr = st.ParagraphPr, st.RunPr
				}
			} else {
				sm.AddStyle(st)
			}
		}
	}
	if !keepPredefined {
		keep := map[string]bool{}
		for _, id := range ids {
			keep[id] = true
		}
		for _, s := range sm.GetAllStyles() {
			if !keep[s.StyleID] {
				sm.RemoveStyle(s.StyleID)
			}
		}
	}

	reg := regOf(sm)
	before := deep.Dump(sm)
	queries := append([]string{}, ids...)
	queries = append(queries, "absent-id", "")
	if keepPredefined {
		queries = append(queries, "Heading2", "Normal", "TOC1")
	}
	api := style.NewQuickStyleAPI(sm)
	cyc := 0
	for _, id := range queries {
		want, owner, class, chain := refResolve(reg, id, attrs)
		if class == "cyclic" {
			cyc++
		}
		var got *style.Style
		if cg := core.Catch(func() { got = sm.GetStyleWithInheritance(id) }); cg != nil {
			res.Add("resolve/"+class+"/"+cg.Key(), fmt.Sprintf("GetStyleWithInheritance(%q) panicked: %s", id, cg.Msg), "chain "+strings.Join(chain, "->"), cg.Stack)
			continue
		}
		res.Count("resolutions", 1)
		if reg[id] == nil {
			if got != nil {
				res.Add("resolve/absent-id-yields-style", fmt.Sprintf("GetStyleWithInheritance(%q) returned a style for an id that is not registered", id))
			}
			continue
		}
		if got == nil {
			res.Add("resolve/"+class+"/nil-for-registered-id", fmt.Sprintf("GetStyleWithInheritance(%q) returned nil", id))
			continue
		}
		if got.StyleID != id {
			res.Add("resolve/"+class+"/wrong-style-id", fmt.Sprintf("GetStyleWithInheritance(%q) returned style %q", id, got.StyleID), "chain "+strings.Join(chain, "->"))
		}
		for _, a := range attrs {
			k := a.group + "." + a.name
			g := attrDump(got, a)
			w := want[k]
			res.Count("attributes_compared", 1)
			if g == w {
				if w != "" && owner[k] != id {
					res.Count("inherited_values_confirmed", 1)
				}
				continue
			}
			own := attrDump(reg[id], a)
			kind := "wrong-value"
			switch {
			case g == "" && own != "":
				kind = "own-setting-lost"
			case g == "":
				kind = "not-inherited"
				if class == "cyclic" {
					// the statement fixes no value once the chain has looped; absence of an inherited value is tolerated there
					continue
				}
			case w == "":
				kind = "invented"
			case own != "" && g != own:
				kind = "ancestor-overrides-own-setting"
			}
			res.Add("resolve/"+class+"/"+a.name+"/"+kind, fmt.Sprintf("style %q (chain %s): %s resolves to %.80s, expected %.80s (nearest definer %q)", id, strings.Join(chain, "->"), k, g, w, owner[k]))
		}
		// ApplyStyleToXML reports the same resolution
		var m map[string]interface{}
		var err error
		if cg := core.Catch(func() { m, err = sm.ApplyStyleToXML(id) }); cg != nil {
			res.Add("ApplyStyleToXML/"+class+"/"+cg.Key(), "ApplyStyleToXML panicked: "+cg.Msg, cg.Stack)
		} else if err != nil {
			res.Add("ApplyStyleToXML/error-for-registered-id", fmt.Sprintf("ApplyStyleToXML(%q): %v", id, err))
		} else {
			gl := c14MapLeaves(m)
			wl := c14ExpectLeaves(reg, id, attrs)
			for k, w := range wl {
				res.Count("map_leaves_compared", 1)
				g, ok := gl[k]
				if !ok {
					if class == "cyclic" {
						_, o, _, _ := refResolve(reg, id, attrs)
						_ = o
						continue
					}
					res.Add("ApplyStyleToXML/"+class+"/missing"+leafClass(k), fmt.Sprintf("ApplyStyleToXML(%q) lacks %s=%q", id, k, w))
				} else if g != w {
					res.Add("ApplyStyleToXML/"+class+"/wrong"+leafClass(k), fmt.Sprintf("ApplyStyleToXML(%q): %s=%q, expected %q", id, k, g, w))
				}
			}
			for k, g := range gl {
				if k == "/styleId" || k == "/type" || g == "{}" {
					continue
				}
				if _, ok := wl[k]; !ok && (strings.HasPrefix(k, "/paragraphProperties/") || strings.HasPrefix(k, "/runProperties/")) {
					known := false
					for _, p := range []string{"spacing", "indentation", "justification", "outlineLevel", "bold", "italic", "strike", "underline", "fontSize", "color", "highlight", "fontFamily"} {
						if strings.Contains(k, "/"+p) {
							known = true
						}
					}
					if known {
						res.Add("ApplyStyleToXML/"+class+"/invented"+leafClass(k), fmt.Sprintf("ApplyStyleToXML(%q) reports %s=%q which no style of the chain defines", id, k, g))
					}
				}
			}
			if m["styleId"] != id {
				res.Add("ApplyStyleToXML/wrong-style-id", fmt.Sprintf("ApplyStyleToXML(%q) reports styleId %v", id, m["styleId"]))
			}
		}
		if cg := core.Catch(func() {
			info, e := api.GetStyleInfo(id)
			if e != nil || info == nil {
				res.Add("GetStyleInfo/error-for-registered-id", fmt.Sprintf("GetStyleInfo(%q): %v", id, e))
				return
			}
			wantBase := ""
			if reg[id].BasedOn != nil {
				wantBase = reg[id].BasedOn.Val
			}
			if info.ID != id || info.BasedOn != wantBase {
				res.Add("GetStyleInfo/wrong-identity", fmt.Sprintf("GetStyleInfo(%q) = {ID:%q BasedOn:%q}, expected basedOn %q", id, info.ID, info.BasedOn, wantBase))
			}
		}); cg != nil {
			res.Add("GetStyleInfo/"+cg.Key(), "GetStyleInfo panicked: "+cg.Msg, cg.Stack)
		}
	}
	if after := deep.Dump(sm); after != before {
		res.Add("registry-modified-by-resolution", "the registered styles changed while resolving styles", firstDiff(before, after))
	}
	res.Count("registries", 1)
	res.Count("cyclic_queries", int64(cyc))

	// Clone independence
	if cg := core.Catch(func() {
		cl := sm.Clone()
		if d := deep.Dump(cl); d != before {
			res.Add("clone/differs-from-source", "Clone() is not equal to its source", firstDiff(before, d))
			return
		}
		if al := deep.Aliases(sm, cl); len(al) > 0 {
			res.Add("clone/shares:"+al[0], fmt.Sprintf("Clone() shares %d heap objects with its source: %v", len(al), al))
		}
		n := deep.Scribble(cl.GetAllStyles())
		res.Count("clone_fields_scribbled", int64(n))
		if deep.Dump(sm) != before {
			res.Add("clone/source-affected-by-clone-mutation", "mutating every field of the clone's styles changed the source registry")
		}
		cl2 := sm.Clone()
		d2 := deep.Dump(cl2)
		cl2.RemoveStyle(ids[0])
		cl2.AddStyle(&style.Style{Type: "paragraph", StyleID: "only-in-clone"})
		if deep.Dump(sm) != before {
			res.Add("clone/source-affected-by-clone-add-remove", "AddStyle/RemoveStyle on the clone changed the source registry")
		}
		cl3 := sm.Clone()
		deep.Scribble(sm.GetAllStyles())
		sm.RemoveStyle(ids[0])
		if deep.Dump(cl3) != d2 {
			res.Add("clone/affected-by-source-mutation", "mutating the source registry changed an earlier clone")
		}
		res.Count("clones_checked", 1)
	}); cg != nil {
		res.Add("clone/"+cg.Key(), "Clone panicked: "+cg.Msg, cg.Stack)
	}

	res.Nontrivial = res.Stats["inherited_values_confirmed"] > 0 || cyc > 0
	sort.Strings(sampleEdges)
	res.Sig = fmt.Sprintf("%s|%d|%s|%x", shape, len(ids), strings.Join(sampleEdges, ","), deep.Hash(before))
	res.Sample = map[string]interface{}{"case": c.Case, "shape": shape, "styles": len(reg), "basedOn": sampleEdges, "queries": len(queries)}
	return res
}

func leafClass(k string) string {
	parts := strings.Split(strings.TrimPrefix(k, "/"), "/")
	if len(parts) >= 2 {
		return "/" + parts[1]
	}
	return "/" + k
}

func firstDiff(a, b string) string {
	i := 0
	for i < len(a) && i < len(b) && a[i] == b[i] {
		i++
	}
	lo := i - 80
	if lo < 0 {
		lo = 0
	}
	ha, hb := i+120, i+120
	if ha > len(a) {
		ha = len(a)
	}
	if hb > len(b) {
		hb = len(b)
	}
	return "before: …" + a[lo:ha] + "\nafter:  …" + b[lo:hb]
}

func init() {
	core.Register(&core.Check{
		ID:    "C14",
		Level: "exploration",
		Rule: "style registries built through AddStyle/CreateCustomStyle: the first 216 cases enumerate every formatting element (pointer fields of ParagraphProperties and RunProperties, taken by reflection) × depth of its nearest definer 0..3 on a 4-chain × {no other attributes, all other attributes everywhere, random}; the rest are 1-12 styles (one case in twelve: chains of 13-80 styles with the attributes only at the far end) over chain / forest / k-cycle / self-loop / missing-parent / chain-into-cycle / random (incl. predefined parents) graphs with random attribute subsets, every value tagged with its owner. " +
			"Every id (plus absent ones) is resolved with GetStyleWithInheritance, ApplyStyleToXML and GetStyleInfo and compared per element with a reference resolver (walk basedOn with a visited set, first definer wins); the registry dump must be unchanged afterwards; Clone() must dump equal, share no heap object, and be unaffected by scribbling the source (and vice versa). " +
			"Non-trivial: at least one value confirmed as inherited from an ancestor, or a cyclic chain queried; distinct = graph shape + edges + registry hash.",
		Cases:          func(t string) int { return tierN(t, 20000, 1000000) },
		Run:            c14Case,
		Assume:         []string{"granularity is the formatting element (w:spacing, w:ind, ... as a whole), as in the statement", "on a chain that loops, a missing inherited value is tolerated (the statement fixes none) but a wrong one, a lost own setting, a crash or non-termination is not", "table properties are not compared"},
		CrashIsFinding: true,
		CaseTimeoutS:   30,
		MinNontrivial:  200,
	})
}
