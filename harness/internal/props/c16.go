package props

import (
	"fmt"
	"sort"
	"strings"

	"github.com/zerx-lab/wordZero/pkg/document"

	"verifharness/internal/core"
	"verifharness/internal/gen"
	"verifharness/internal/rng"
)

// ---- template AST (the generator keeps it; the expected output is evaluated from it, not parsed back) ----

type tnode struct {
	kind    string // lit | var | if | each | image | this | index | first | last
	text    string // literal text or name
	a, b    []*tnode
	hasElse bool
	m       []*tnode // block only: override in the middle template of a three-level chain
	hasMid  bool
}

// nestedSpec: how the items of a nested list are generated for each outer item.
type nestedSpec struct {
	scalar bool
	proto  map[string]interface{}
	cnt    int
}

func tprint(ns []*tnode, sb *strings.Builder) {
	for _, n := range ns {
		switch n.kind {
		case "lit":
			sb.WriteString(n.text)
		case "var":
			sb.WriteString("{{" + n.text + "}}")
		case "this":
			sb.WriteString("{{this}}")
		case "index":
			sb.WriteString("{{@index}}")
		case "first":
			sb.WriteString("{{@first}}")
		case "last":
			sb.WriteString("{{@last}}")
		case "image":
			sb.WriteString("{{#image " + n.text + "}}")
		case "if":
			sb.WriteString("{{#if " + n.text + "}}")
			tprint(n.a, sb)
			if n.hasElse {
				sb.WriteString("{{else}}")
				tprint(n.b, sb)
			}
			sb.WriteString("{{/if}}")
		case "each":
			sb.WriteString("{{#each " + n.text + "}}")
			tprint(n.a, sb)
			sb.WriteString("{{/each}}")
		}
	}
}

type tdata struct {
	vars   map[string]interface{}
	conds  map[string]bool
	lists  map[string][]interface{}
	images map[string]bool
}

type tctx struct {
	item  interface{}
	idx   int
	n     int
	outer *tctx
}

const imgMark = "\x00IMG\x00"

func tvalue(v interface{}) string {
	if v == nil {
		return ""
	}
	return fmt.Sprint(v)
}

// teval is the reference semantics of the statement.
func teval(ns []*tnode, d *tdata, cx *tctx, sb *strings.Builder) {
	lookup := func(name string) (interface{}, bool) {
		for c := cx; c != nil; c = c.outer {
			if m, ok := c.item.(map[string]interface{}); ok {
				if v, ok := m[name]; ok {
					if _, isList := v.([]interface{}); !isList {
						return v, true
					}
				}
			}
		}
		v, ok := d.vars[name]
		return v, ok
	}
	for _, n := range ns {
		switch n.kind {
		case "lit":
			sb.WriteString(n.text)
		case "var":
			if v, ok := lookup(n.text); ok {
				sb.WriteString(tvalue(v))
			} else {
				sb.WriteString("{{" + n.text + "}}")
			}
		case "this":
			sb.WriteString(tvalue(cx.item))
		case "index":
			sb.WriteString(fmt.Sprint(cx.idx))
		case "first":
			sb.WriteString(fmt.Sprint(cx.idx == 0))
		case "last":
			sb.WriteString(fmt.Sprint(cx.idx == cx.n-1))
		case "image":
			sb.WriteString(imgMark)
		case "if":
			val := false
			if cx != nil {
				if m, ok := cx.item.(map[string]interface{}); ok {
					if b, ok := m[n.text].(bool); ok {
						val = b
					}
				} else if cx.outer == nil {
					val = d.conds[n.text] // a plain item has no fields: the condition is the data's own
				}
			} else {
				val = d.conds[n.text]
			}
			if val {
				teval(n.a, d, cx, sb)
			} else if n.hasElse {
				teval(n.b, d, cx, sb)
			}
		case "each":
			var items []interface{}
			if cx != nil {
				if m, ok := cx.item.(map[string]interface{}); ok {
					items, _ = m[n.text].([]interface{})
				}
			} else {
				items = d.lists[n.text]
			}
			for i, it := range items {
				teval(n.a, d, &tctx{item: it, idx: i, n: len(items), outer: cx}, sb)
			}
		}
	}
}

// ---- generator ----

var c16AllFeatures = []string{"else", "dlv", "nested", "adjacent", "missing", "loopmeta", "loopmeta-nested", "scalar-loop", "map-loop", "blocks", "image", "braces", "multiline-value", "nonstring", "loop-if", "hostile-literal", "var-in-loop", "two-loops", "empty-list", "if", "outer-field-in-nested", "three-level-chain"}

type tgen struct {
	r     *rng.R
	feat  map[string]bool
	used  map[string]bool
	d     *tdata
	nvar  int
	ncond int
	nlist int
	nfld  int
}

func (g *tgen) on(f string, num, den int) bool {
	hit := g.r.Chance(num, den) // consume the same amount of randomness whether or not the feature is enabled
	if !g.feat[f] || !hit {
		return false
	}
	g.used[f] = true
	return true
}

var directiveLike = []string{"{{x}}", "{{v0}}", "{{#if c0}}", "{{/if}}", "{{else}}", "{{#each l0}}", "{{/each}}", "{{this}}", "{{@index}}", "{{#image pic}}", "{{f0}}", "{{#if c0}}A{{else}}B{{/if}}", "{{#each l0}}{{this}}{{/each}}", "{{extends \"base\"}}", "{{#block \"main\"}}x{{/block}}", "{{", "}}", "{{v1}} and {{#if c1}}",
	// odd runs of braces and fragments that become a directive only together with their neighbourhood
	"{{{v0}}}", "{{{f1_0}}}", "{{{#image pic}}}", "{{{{x}}", "{{{", "{", "{v0}}", "{#image pic0}}", "{#if c0}}", "{/if}}", "{else}}", "{{v0}", "{{#each l0}", "[IMAGE:pic0]", "[[IMAGE:pic0]]", "[", "IMAGE:pic0]", "{[IMAGE:pic1]}", "{{this}", "{this}}", "{{@index}"}

// splittable: complete directives that the generator cuts in two and hands to two adjacent variables
var splittable = []string{"{{v0}}", "{{v1}}", "{{#image pic0}}", "{{#if c0}}", "{{/if}}", "{{else}}", "{{#each l0_1}}", "{{/each}}", "{{this}}", "{{@index}}", "[IMAGE:pic0]", "{{f1_0}}", "{{nov0}}"}

func (g *tgen) value() interface{} {
	r := g.r
	if g.on("dlv", 1, 4) {
		return gen.Word(r, 0, 4) + directiveLike[r.Intn(len(directiveLike))] + gen.Word(r, 0, 4)
	}
	if g.on("nonstring", 1, 5) {
		switch r.Intn(11) {
		case 6:
			// decimal fractions that have no short binary form, in both float widths: the value is the number as the caller
			// wrote it (19.99), not the digits of its binary neighbour
			return float64(r.Range(-99999, 99999)) / 100
		case 7:
			return float32(r.Range(-9999, 9999)) / 100
		case 8:
			return []interface{}{float32(0.1), float32(2.6), float32(3.14), float64(0.7), float64(1) / 3, float32(1) / 3}[r.Intn(6)]
		case 9:
			return []interface{}{int8(-7), int16(-300), uint16(65535), uint32(4000000000), uint64(1) << 63, uint(77)}[r.Intn(6)]
		case 10:
			return r.Range(-50, 5000)
		case 0:
			return r.Range(-50, 5000)
		case 1:
			return int64(r.Range(0, 1<<30))
		case 2:
			return float64(r.Range(-4000, 4000)) / 8
		case 3:
			return r.Bool()
		case 4:
			return int32(r.Range(0, 99))
		default:
			return uint8(r.Intn(255))
		}
	}
	if g.on("multiline-value", 1, 8) {
		return gen.Word(r, 1, 5) + "\n" + gen.Word(r, 1, 5)
	}
	if r.Chance(1, 10) {
		return ""
	}
	if r.Chance(1, 3) {
		return gen.SafeString(r)
	}
	return gen.Word(r, 1, 8)
}

func (g *tgen) literal() string {
	r := g.r
	var s string
	switch {
	case g.on("braces", 1, 6):
		s = []string{"{", "}", "a{b", "}}", "x}}y", "{ {", "} }", "{x}", "{#if}", "a } b { c"}[r.Intn(10)]
	case g.on("hostile-literal", 1, 6):
		s = []string{"<b>&amp;", "a & b", "\"q\"", "中文 テキスト", "é ü ñ", "tab\there", "  two  spaces  ", "#*_~`|", "100%", "a\\b",
			// text that means something to a replacement template or a format string
			"$100", "$HOME and ${wallet}", "$1 $2", "cost: $0", "\\1", "%s %d %v", "$$", "${1}x", "$name"}[r.Intn(19)]
	default:
		s = gen.Word(r, 1, 7)
		if r.Chance(1, 3) {
			s += " " + gen.Word(r, 1, 7)
		}
	}
	switch r.Intn(6) {
	case 0:
		s += "\n"
	case 1:
		s = " " + s
	case 2:
		s += ": "
	}
	return s
}

// nodes generates a sequence for the given context: "top", "map" (loop over maps), "scalar" (loop over scalars).
func (g *tgen) nodes(ctx string, depth, budget int, item map[string]interface{}) []*tnode {
	r := g.r
	var out []*tnode
	n := r.Range(1, budget)
	for i := 0; i < n; i++ {
		if !(len(out) > 0 && out[len(out)-1].kind != "lit" && g.on("adjacent", 1, 3)) || len(out) == 0 {
			out = append(out, &tnode{kind: "lit", text: g.literal()})
		}
		switch k := r.Intn(10); {
		case k < 3: // variable / field
			switch ctx {
			case "top":
				if g.on("dlv", 1, 10) {
					// two adjacent variables whose values only together spell a directive: still two verbatim values
					d := splittable[r.Intn(len(splittable))]
					cut := r.Range(1, len(d)-1)
					g.nvar++
					na, nb := fmt.Sprintf("sa%d", g.nvar), fmt.Sprintf("sb%d", g.nvar)
					g.d.vars[na], g.d.vars[nb] = gen.Word(r, 0, 2)+d[:cut], d[cut:]+gen.Word(r, 0, 2)
					out = append(out, &tnode{kind: "var", text: na}, &tnode{kind: "var", text: nb})
					break
				}
				name := fmt.Sprintf("v%d", r.Intn(6))
				if g.on("missing", 1, 6) {
					name = fmt.Sprintf("nov%d", r.Intn(3))
					if r.Chance(1, 3) {
						// unknown, but spelt like a known variable in another case: names are case-sensitive
						k := fmt.Sprintf("v%d", r.Intn(6))
						if _, ok := g.d.vars[k]; !ok {
							g.d.vars[k] = g.value()
						}
						name = strings.ToUpper(k)
					}
				} else if _, ok := g.d.vars[name]; !ok {
					g.d.vars[name] = g.value()
				}
				out = append(out, &tnode{kind: "var", text: name})
			case "map":
				if g.on("var-in-loop", 1, 6) {
					name := fmt.Sprintf("v%d", r.Intn(6))
					if _, ok := g.d.vars[name]; !ok {
						g.d.vars[name] = g.value()
					}
					out = append(out, &tnode{kind: "var", text: name})
					break
				}
				name := fmt.Sprintf("f%d_%d", depth, r.Intn(4))
				if g.on("missing", 1, 8) {
					name = fmt.Sprintf("nof%d", r.Intn(3))
				} else {
					item[name] = true // field is used; values are filled per item later
				}
				out = append(out, &tnode{kind: "var", text: name})
			default:
				out = append(out, &tnode{kind: "this"})
			}
		case k < 5 && ctx != "top" && g.feat["loopmeta"]: // loop meta variables
			if depth >= 2 && !g.feat["loopmeta-nested"] {
				break
			}
			g.used["loopmeta"] = true
			if depth >= 2 {
				g.used["loopmeta-nested"] = true
			}
			out = append(out, &tnode{kind: []string{"index", "first", "last", "index"}[r.Intn(4)]})
		case k < 7: // conditional
			if ctx == "scalar" && depth == 1 && g.feat["if"] && g.feat["loop-if"] {
				// a conditional inside a loop over plain items: the items have no fields, the condition is the data's own
				g.used["if"], g.used["loop-if"] = true, true
				nd := &tnode{kind: "if", text: fmt.Sprintf("c%d", r.Intn(4))}
				if _, ok := g.d.conds[nd.text]; !ok {
					g.d.conds[nd.text] = r.Chance(2, 3)
				}
				nd.a = g.flat(ctx, depth, item)
				if g.on("else", 1, 2) {
					nd.hasElse = true
					nd.b = g.flat(ctx, depth, item)
				}
				out = append(out, nd)
				break
			}
			if ctx == "scalar" || depth > 2 {
				break
			}
			if ctx == "map" && !g.feat["loop-if"] {
				break
			}
			if !g.feat["if"] {
				break
			}
			g.used["if"] = true
			nd := &tnode{kind: "if"}
			if ctx == "top" {
				nd.text = fmt.Sprintf("c%d", r.Intn(4))
				if g.on("missing", 1, 6) {
					nd.text = fmt.Sprintf("noc%d", r.Intn(2))
				} else if _, ok := g.d.conds[nd.text]; !ok {
					g.d.conds[nd.text] = r.Bool()
				}
			} else {
				g.used["loop-if"] = true
				nd.text = fmt.Sprintf("b%d_%d", depth, r.Intn(2))
				if depth == 1 && g.feat["nested"] && r.Chance(1, 3) {
					// the outer item carries a condition under the very name the items of its nested list use for theirs:
					// inside the nested loop the item's own field decides
					nd.text = fmt.Sprintf("b2_%d", r.Intn(2))
				}
				item["?"+nd.text] = true
			}
			nd.a = g.flat(ctx, depth, item)
			if g.on("else", 1, 2) {
				nd.hasElse = true
				nd.b = g.flat(ctx, depth, item)
			}
			out = append(out, nd)
		case k < 9: // loop
			if depth >= 2 || ctx == "scalar" {
				break
			}
			if ctx == "map" && !g.feat["nested"] {
				break
			}
			if ctx == "top" && g.nlist >= 1 && !g.feat["two-loops"] {
				break
			}
			scalar := g.feat["scalar-loop"] && (!g.feat["map-loop"] || r.Chance(1, 3))
			if !scalar && !g.feat["map-loop"] {
				break
			}
			if scalar {
				g.used["scalar-loop"] = true
			} else {
				g.used["map-loop"] = true
			}
			if ctx == "map" {
				g.used["nested"] = true
			}
			if ctx == "top" && g.nlist >= 1 {
				g.used["two-loops"] = true
			}
			g.nlist++
			name := fmt.Sprintf("l%d_%d", depth, g.nlist)
			nd := &tnode{kind: "each", text: name}
			cnt := r.Range(1, 3)
			if g.on("empty-list", 1, 8) {
				cnt = 0
			}
			var items []interface{}
			var nestedProto map[string]interface{}
			if scalar {
				nd.a = g.nodes("scalar", depth+1, 2, nil)
				for j := 0; j < cnt; j++ {
					items = append(items, g.value())
				}
			} else {
				proto := map[string]interface{}{}
				nestedProto = proto
				nd.a = g.nodes("map", depth+1, 3, proto)
				if ctx == "map" && g.on("outer-field-in-nested", 1, 3) {
					// a field of the enclosing item referenced inside the nested loop
					name := fmt.Sprintf("f%d_%d", depth, r.Intn(4))
					item[name] = true
					nd.a = append(nd.a, &tnode{kind: "lit", text: " ^"}, &tnode{kind: "var", text: name})
				}
				for j := 0; j < cnt; j++ {
					items = append(items, g.fill(proto))
				}
			}
			missingList := g.on("missing", 1, 10)
			if ctx == "top" {
				if !missingList {
					g.d.lists[name] = items
				}
			} else if !missingList {
				sp := &nestedSpec{scalar: scalar, cnt: cnt}
				if !scalar {
					// keep the prototype: every outer item gets its own nested items
					sp.proto = nestedProto
				}
				item["#"+name] = sp
			}
			out = append(out, nd)
		default: // image placeholder on a line of its own
			if ctx != "top" || !g.on("image", 1, 2) {
				break
			}
			name := fmt.Sprintf("pic%d", r.Intn(3))
			g.d.images[name] = true
			// force line boundaries around the placeholder
			if len(out) > 0 && out[len(out)-1].kind == "lit" {
				out[len(out)-1].text += "\n"
			} else {
				out = append(out, &tnode{kind: "lit", text: "\n"})
			}
			out = append(out, &tnode{kind: "image", text: name}, &tnode{kind: "lit", text: "\n"})
		}
	}
	if r.Bool() {
		out = append(out, &tnode{kind: "lit", text: g.literal()})
	}
	return out
}

// flat: branch content (literals, variables/fields, loop meta) without further nesting of conditionals.
func (g *tgen) flat(ctx string, depth int, item map[string]interface{}) []*tnode {
	r := g.r
	var out []*tnode
	for i, n := 0, r.Range(0, 2); i <= n; i++ {
		out = append(out, &tnode{kind: "lit", text: g.literal()})
		if r.Bool() {
			switch ctx {
			case "top":
				name := fmt.Sprintf("v%d", r.Intn(6))
				if _, ok := g.d.vars[name]; !ok {
					g.d.vars[name] = g.value()
				}
				out = append(out, &tnode{kind: "var", text: name})
			case "map":
				name := fmt.Sprintf("f%d_%d", depth, r.Intn(4))
				item[name] = true
				out = append(out, &tnode{kind: "var", text: name})
			case "scalar":
				out = append(out, &tnode{kind: []string{"this", "this", "index"}[r.Intn(3)]})
			}
		}
	}
	return out
}

// fill instantiates one item from the prototype collected while generating the loop body.
func (g *tgen) fill(proto map[string]interface{}) map[string]interface{} {
	it := map[string]interface{}{}
	keys := make([]string, 0, len(proto))
	for k := range proto {
		keys = append(keys, k)
	}
	sort.Strings(keys)
	for _, k := range keys {
		switch {
		case strings.HasPrefix(k, "?"):
			if !g.on("missing", 1, 8) {
				it[k[1:]] = g.r.Bool()
			}
		case strings.HasPrefix(k, "#"):
			// nested list: every outer item gets its own items; some items lack the list altogether
			sp := proto[k].(*nestedSpec)
			if g.on("missing", 1, 5) {
				break
			}
			n := sp.cnt
			if n > 0 {
				n = g.r.Range(0, 3)
			}
			items := []interface{}{}
			for j := 0; j < n; j++ {
				if sp.scalar {
					items = append(items, g.value())
				} else {
					items = append(items, g.fill(sp.proto))
				}
			}
			it[k[1:]] = items
		default:
			if !g.on("missing", 1, 10) {
				it[k] = g.value()
			}
		}
	}
	return it
}

type c16Case struct {
	nodes       []*tnode // top level; "block" nodes (a = default, m = middle override, b = leaf override) only here
	threeLevels bool
	templates   [][2]string
	render      string
	expected    string
	data        *tdata
	used        []string
}

// build prints the templates and evaluates the expected output from the AST.
func (cs *c16Case) build() {
	hasBlocks := false
	for _, n := range cs.nodes {
		if n.kind == "block" {
			hasBlocks = true
		}
	}
	var base, mid, child, exp strings.Builder
	hasMid := false
	for _, n := range cs.nodes {
		if n.kind == "block" && n.hasMid {
			hasMid = true
		}
	}
	mid.WriteString(`{{extends "base"}}`)
	if hasMid || cs.threeLevels {
		child.WriteString(`{{extends "mid"}}`)
	} else {
		child.WriteString(`{{extends "base"}}`)
	}
	for _, n := range cs.nodes {
		if n.kind != "block" {
			tprint([]*tnode{n}, &base)
			teval([]*tnode{n}, cs.data, nil, &exp)
			continue
		}
		base.WriteString(`{{#block "` + n.text + `"}}`)
		tprint(n.a, &base)
		base.WriteString(`{{/block}}`)
		if n.hasMid {
			mid.WriteString(`{{#block "` + n.text + `"}}`)
			tprint(n.m, &mid)
			mid.WriteString(`{{/block}}`)
		}
		if n.hasElse {
			child.WriteString(`{{#block "` + n.text + `"}}`)
			tprint(n.b, &child)
			child.WriteString(`{{/block}}`)
		}
		switch {
		case n.hasElse:
			teval(n.b, cs.data, nil, &exp)
		case n.hasMid:
			teval(n.m, cs.data, nil, &exp)
		default:
			teval(n.a, cs.data, nil, &exp)
		}
	}
	if hasBlocks && (hasMid || cs.threeLevels) {
		cs.templates = [][2]string{{"base", base.String()}, {"mid", mid.String()}, {"child", child.String()}}
		cs.render = "child"
	} else if hasBlocks {
		cs.templates = [][2]string{{"base", base.String()}, {"child", child.String()}}
		cs.render = "child"
	} else {
		cs.templates = [][2]string{{"t", base.String()}}
		cs.render = "t"
	}
	cs.expected = exp.String()
}

func c16Generate(seed uint64, prop string, cs int, feat map[string]bool) *c16Case {
	r := rng.Derive(seed, h64(prop), uint64(cs))
	g := &tgen{r: r, feat: feat, used: map[string]bool{}, d: &tdata{vars: map[string]interface{}{}, conds: map[string]bool{}, lists: map[string][]interface{}{}, images: map[string]bool{}}}
	out := &c16Case{data: g.d}
	if g.on("blocks", 1, 5) {
		names := []string{"main", "side bar", "b-1", "头部"}
		nb := r.Range(1, 3)
		out.threeLevels = g.on("three-level-chain", 1, 2)
		for i := 0; i < nb; i++ {
			out.nodes = append(out.nodes, g.nodes("top", 0, 2, nil)...)
			b := &tnode{kind: "block", text: names[i], a: g.nodes("top", 0, 2, nil)}
			if r.Bool() {
				b.hasElse = true
				b.b = g.nodes("top", 0, 2, nil)
			}
			if out.threeLevels && r.Bool() {
				b.hasMid = true
				b.m = g.nodes("top", 0, 2, nil)
			}
			out.nodes = append(out.nodes, b)
		}
		out.nodes = append(out.nodes, g.nodes("top", 0, 2, nil)...)
	} else {
		out.nodes = g.nodes("top", 0, 5, nil)
	}
	out.build()
	for f := range g.used {
		out.used = append(out.used, f)
	}
	sort.Strings(out.used)
	return out
}

// junctionSafe: the printed template must not contain accidental directive syntax created at literal junctions,
// and image placeholders must sit on a line of their own (the generator's domain; reductions must stay inside it).
func (cs *c16Case) junctionSafe() bool {
	okImg := true
	var chk func(ns []*tnode)
	chk = func(ns []*tnode) {
		for i, n := range ns {
			if n.kind == "image" {
				if i > 0 && !(ns[i-1].kind == "lit" && strings.HasSuffix(ns[i-1].text, "\n")) {
					okImg = false
				}
				if i+1 < len(ns) && !(ns[i+1].kind == "lit" && strings.HasPrefix(ns[i+1].text, "\n")) {
					okImg = false
				}
				if (i == 0 || i+1 == len(ns)) && len(cs.nodes) > 0 && &ns[0] != &cs.nodes[0] {
					okImg = false // first/last only counts at top level
				}
			}
			chk(n.a)
			chk(n.b)
		}
	}
	chk(cs.nodes)
	if !okImg {
		return false
	}
	for _, t := range cs.templates {
		if strings.Contains(t[1], "{{{") || strings.Contains(t[1], "[IMAGE") {
			return false
		}
	}
	return true
}

// ---- shrinking on the AST and the data (delta debugging): the key of a finding is derived from the minimal failing case ----

func cloneNodes(ns []*tnode) []*tnode {
	out := make([]*tnode, len(ns))
	for i, n := range ns {
		c := *n
		c.a, c.b, c.m = cloneNodes(n.a), cloneNodes(n.b), cloneNodes(n.m)
		out[i] = &c
	}
	return out
}

func cloneVal(v interface{}) interface{} {
	switch x := v.(type) {
	case map[string]interface{}:
		m := map[string]interface{}{}
		for k, vv := range x {
			m[k] = cloneVal(vv)
		}
		return m
	case []interface{}:
		l := make([]interface{}, len(x))
		for i := range x {
			l[i] = cloneVal(x[i])
		}
		return l
	}
	return v
}

func (cs *c16Case) clone() *c16Case {
	d := &tdata{vars: map[string]interface{}{}, conds: map[string]bool{}, lists: map[string][]interface{}{}, images: map[string]bool{}}
	for k, v := range cs.data.vars {
		d.vars[k] = v
	}
	for k, v := range cs.data.conds {
		d.conds[k] = v
	}
	for k, v := range cs.data.lists {
		d.lists[k] = cloneVal(v).([]interface{})
	}
	for k, v := range cs.data.images {
		d.images[k] = v
	}
	return &c16Case{nodes: cloneNodes(cs.nodes), data: d, threeLevels: cs.threeLevels}
}

// listsOf returns pointers to every node list of the AST (depth first), so that reductions can address them by index.
func listsOf(root *[]*tnode, out *[]*[]*tnode) {
	*out = append(*out, root)
	for _, n := range *root {
		if len(n.a) > 0 || n.kind == "if" || n.kind == "each" || n.kind == "block" {
			listsOf(&n.a, out)
		}
		if n.hasElse {
			listsOf(&n.b, out)
		}
		if n.hasMid {
			listsOf(&n.m, out)
		}
	}
}

// reductions enumerates candidate simplifications of cs as functions applied to a fresh clone.
func c16Reductions(cs *c16Case) []func(*c16Case) {
	var out []func(*c16Case)
	var ls []*[]*tnode
	listsOf(&cs.nodes, &ls)
	for li := range ls {
		li := li
		for ni := range *ls[li] {
			ni := ni
			n := (*ls[li])[ni]
			out = append(out, func(c *c16Case) { // remove the node
				var l []*[]*tnode
				listsOf(&c.nodes, &l)
				*l[li] = append(append([]*tnode{}, (*l[li])[:ni]...), (*l[li])[ni+1:]...)
			})
			if n.kind == "if" || n.kind == "block" {
				out = append(out, func(c *c16Case) { // unwrap: keep the first branch in place
					var l []*[]*tnode
					listsOf(&c.nodes, &l)
					x := (*l[li])[ni]
					*l[li] = append(append(append([]*tnode{}, (*l[li])[:ni]...), x.a...), (*l[li])[ni+1:]...)
				})
				if n.hasElse {
					out = append(out, func(c *c16Case) { // drop the else branch / the override
						var l []*[]*tnode
						listsOf(&c.nodes, &l)
						x := (*l[li])[ni]
						x.hasElse, x.b = false, nil
					})
				}
			}
			if n.kind == "lit" && n.text != "x" && n.text != "\n" {
				out = append(out, func(c *c16Case) {
					var l []*[]*tnode
					listsOf(&c.nodes, &l)
					x := (*l[li])[ni]
					if strings.Contains(x.text, "\n") {
						x.text = "\n"
					} else {
						x.text = "x"
					}
				})
			}
		}
	}
	if cs.threeLevels {
		out = append(out, func(c *c16Case) {
			c.threeLevels = false
			for _, n := range c.nodes {
				n.hasMid, n.m = false, nil
			}
		})
	}
	for i, n := range cs.nodes {
		i := i
		if n.kind == "block" && n.hasMid {
			out = append(out, func(c *c16Case) { c.nodes[i].hasMid, c.nodes[i].m = false, nil })
		}
	}
	// data: plain values, single items
	var vk []string
	for k := range cs.data.vars {
		vk = append(vk, k)
	}
	sort.Strings(vk)
	for _, k := range vk {
		k := k
		if cs.data.vars[k] != "v" {
			out = append(out, func(c *c16Case) { c.data.vars[k] = "v" })
		}
	}
	var lk []string
	for k := range cs.data.lists {
		lk = append(lk, k)
	}
	sort.Strings(lk)
	for _, k := range lk {
		k := k
		if len(cs.data.lists[k]) > 1 {
			out = append(out, func(c *c16Case) { c.data.lists[k] = c.data.lists[k][:1] })
			out = append(out, func(c *c16Case) { c.data.lists[k] = c.data.lists[k][1:] })
		}
		for i, it := range cs.data.lists[k] {
			i := i
			switch x := it.(type) {
			case map[string]interface{}:
				var fk []string
				for f := range x {
					fk = append(fk, f)
				}
				sort.Strings(fk)
				for _, f := range fk {
					f := f
					switch fv := x[f].(type) {
					case bool:
					case []interface{}:
						if len(fv) > 1 {
							out = append(out, func(c *c16Case) {
								m := c.data.lists[k][i].(map[string]interface{})
								m[f] = m[f].([]interface{})[:1]
							})
						}
						for j, inner := range fv {
							j := j
							if im, ok := inner.(map[string]interface{}); ok {
								for g, gv := range im {
									g := g
									if _, isB := gv.(bool); !isB && gv != "v" {
										out = append(out, func(c *c16Case) {
											c.data.lists[k][i].(map[string]interface{})[f].([]interface{})[j].(map[string]interface{})[g] = "v"
										})
									}
								}
							} else if inner != "v" {
								out = append(out, func(c *c16Case) { c.data.lists[k][i].(map[string]interface{})[f].([]interface{})[j] = "v" })
							}
						}
					default:
						if fv != "v" {
							out = append(out, func(c *c16Case) { c.data.lists[k][i].(map[string]interface{})[f] = "v" })
						}
					}
				}
			default:
				if it != "v" {
					out = append(out, func(c *c16Case) { c.data.lists[k][i] = "v" })
				}
			}
		}
	}
	return out
}

// c16Describe derives the diagnosis tokens from a (minimal) case: only names from a fixed vocabulary.
func c16Describe(cs *c16Case) []string {
	set := map[string]bool{}
	valClass := func(v interface{}) {
		s, ok := v.(string)
		switch {
		case !ok:
			if v != nil {
				set["value:non-string"] = true
			}
		case strings.Contains(s, "{{") || strings.Contains(s, "}}"):
			set["value:directive-like"] = true
		case strings.Contains(s, "\n"):
			set["value:multiline"] = true
		}
	}
	var walk func(ns []*tnode, depth int, inMap bool, items []interface{})
	walk = func(ns []*tnode, depth int, inMap bool, items []interface{}) {
		prevDirective := false
		for _, n := range ns {
			if n.kind != "lit" && prevDirective {
				set["adjacent-directives"] = true
			}
			prevDirective = n.kind != "lit"
			switch n.kind {
			case "lit":
				if strings.ContainsAny(n.text, "{}") {
					set["literal:braces"] = true
				}
				if strings.Contains(n.text, "\n") {
					set["literal:newline"] = true
				}
				if n.text != "x" && n.text != "\n" && !strings.ContainsAny(n.text, "{}") {
					set["literal"] = true
				}
			case "var":
				if depth == 0 {
					set["var"] = true
					if v, ok := cs.data.vars[n.text]; ok {
						valClass(v)
					} else {
						set["missing-var"] = true
					}
				} else {
					found := false
					for _, it := range items {
						if m, ok := it.(map[string]interface{}); ok {
							if v, ok := m[n.text]; ok {
								found = true
								valClass(v)
							}
						}
					}
					if v, ok := cs.data.vars[n.text]; ok && !found {
						set["top-level-var-in-loop"] = true
						valClass(v)
					} else if found {
						set["field"] = true
					} else {
						set["missing-field"] = true
					}
				}
			case "this", "index", "first", "last":
				set["@"+n.kind] = true
				if depth >= 2 {
					set["@"+n.kind+"-in-nested-each"] = true
				}
				if n.kind == "this" {
					for _, it := range items {
						valClass(it)
					}
				}
			case "image":
				set["image"] = true
			case "block":
				set["block"] = true
				if n.hasElse {
					set["block-override"] = true
					walk(n.b, depth, inMap, items)
				}
				if n.hasMid {
					set["block-override-in-middle-template"] = true
					walk(n.m, depth, inMap, items)
				}
				if cs.threeLevels {
					set["three-level-chain"] = true
				}
				walk(n.a, depth, inMap, items)
			case "if":
				if depth == 0 {
					set["if"] = true
					if _, ok := cs.data.conds[n.text]; !ok {
						set["missing-cond"] = true
					}
				} else {
					set["if-in-each"] = true
					if !inMap {
						set["if-in-each-over-plain-items"] = true
					}
				}
				if n.hasElse {
					set["else"] = true
					walk(n.b, depth, inMap, items)
				}
				walk(n.a, depth, inMap, items)
			case "each":
				var sub []interface{}
				if depth == 0 {
					l, ok := cs.data.lists[n.text]
					if !ok {
						set["missing-list"] = true
					}
					sub = l
				} else {
					set["nested-each"] = true
					for _, it := range items {
						if m, ok := it.(map[string]interface{}); ok {
							if l, ok := m[n.text].([]interface{}); ok {
								sub = append(sub, l...)
							} else {
								set["missing-list"] = true
							}
						}
					}
				}
				if len(sub) == 0 {
					set["empty-list"] = true
				}
				isMap := false
				for _, it := range sub {
					if _, ok := it.(map[string]interface{}); ok {
						isMap = true
					}
				}
				if isMap {
					set["each-over-maps"] = true
				} else {
					set["each-over-scalars"] = true
				}
				if len(sub) > 1 {
					set["several-items"] = true
				}
				walk(n.a, depth+1, isMap, sub)
			}
		}
	}
	walk(cs.nodes, 0, false, nil)
	var out []string
	for k := range set {
		out = append(out, k)
	}
	sort.Strings(out)
	return out
}

func normLines(s string) []string {
	if strings.TrimSpace(strings.ReplaceAll(s, imgMark, "x")) == "" {
		return nil
	}
	ls := strings.Split(s, "\n")
	for i := range ls {
		if strings.TrimSpace(ls[i]) == "" {
			ls[i] = ""
		}
	}
	return ls
}

// c16Render runs the real engine and returns the paragraph texts (imgMark for a paragraph holding a drawing).
func c16Render(cs *c16Case, viaTemplateToDoc bool) (lines []string, err error, caught *core.Caught) {
	caught = core.Catch(func() {
		eng := document.NewTemplateEngine()
		for _, t := range cs.templates {
			if _, e := eng.LoadTemplate(t[0], t[1]); e != nil {
				err = e
				return
			}
		}
		data := document.NewTemplateData()
		for k, v := range cs.data.vars {
			data.SetVariable(k, v)
		}
		for k, v := range cs.data.conds {
			data.SetCondition(k, v)
		}
		for k, v := range cs.data.lists {
			data.SetList(k, v)
		}
		i := 0
		for k := range cs.data.images {
			i++
			im := gen.MakeImage("png", 700+i, 4, 4)
			data.SetImageFromData(k, im.Data, nil)
		}
		var d *document.Document
		if viaTemplateToDoc {
			d, err = eng.RenderTemplateToDocument(cs.render, data)
		} else {
			d, err = eng.RenderToDocument(cs.render, data)
		}
		if err != nil || d == nil {
			return
		}
		for _, el := range d.Body.Elements {
			p, ok := el.(*document.Paragraph)
			if !ok {
				continue
			}
			var sb strings.Builder
			img := false
			for _, run := range p.Runs {
				sb.WriteString(run.Text.Content)
				if run.Drawing != nil {
					img = true
				}
			}
			if img {
				lines = append(lines, imgMark)
			} else {
				lines = append(lines, sb.String())
			}
		}
	})
	return
}

func c16Compare(cs *c16Case, got []string) (kind, detail string) {
	want := normLines(cs.expected)
	g := make([]string, len(got))
	for i := range got {
		g[i] = got[i]
		if strings.TrimSpace(g[i]) == "" {
			g[i] = ""
		}
	}
	allEmpty := true
	for _, l := range g {
		if l != "" {
			allEmpty = false
		}
	}
	if want == nil && allEmpty {
		return "", ""
	}
	if strings.Join(want, "\n") == strings.Join(g, "\n") {
		return "", ""
	}
	kind = "text-differs"
	jg, jw := strings.Join(g, "\n"), strings.Join(want, "\n")
	for _, m := range []string{"{{#if", "{{/if}}", "{{else}}", "{{#each", "{{/each}}", "{{#block", "{{/block}}", "{{extends", "{{#image", "[IMAGE"} {
		if strings.Count(jg, m) > strings.Count(jw, m) {
			kind = "directive-left-in-output"
		}
	}
	if kind == "text-differs" && len(g) != len(want) {
		kind = "line-count-differs"
	}
	i := 0
	for i < len(g) && i < len(want) && g[i] == want[i] {
		i++
	}
	gl, wl := "<none>", "<none>"
	if i < len(g) {
		gl = g[i]
	}
	if i < len(want) {
		wl = want[i]
	}
	return kind, fmt.Sprintf("first difference at line %d: got %q, expected %q (%d vs %d lines)", i, gl, wl, len(g), len(want))
}

func c16Features(list []string) map[string]bool {
	m := map[string]bool{}
	for _, f := range list {
		m[f] = true
	}
	return m
}

// features whose combination is believed to hold on the current tree: half of the cases use only these so that the
// clean part of the input space is explored without any known-finding suppression in play.
var c16Core = []string{"else", "adjacent", "missing", "loopmeta", "scalar-loop", "map-loop", "blocks", "image", "braces", "multiline-value", "nonstring", "loop-if", "hostile-literal", "var-in-loop", "two-loops", "empty-list", "if", "nested", "outer-field-in-nested", "three-level-chain", "dlv"}

func c16Run(c *core.Ctx) *core.Result {
	res := &core.Result{}
	feats := c16AllFeatures
	if c.Case%2 == 0 {
		feats = c16Core
	}
	check := func(cs *c16Case) (kind, detail string) {
		if !cs.junctionSafe() {
			return "", ""
		}
		for _, via := range []bool{false, true} {
			got, err, caught := c16Render(cs, via)
			if caught != nil {
				return caught.Key(), caught.Msg + "\n" + caught.Stack
			}
			if err != nil {
				return "render-error", err.Error()
			}
			if k, d := c16Compare(cs, got); k != "" {
				return k, d
			}
		}
		return "", ""
	}
	cs := c16Generate(c.Seed, c.Prop, c.Case, c16Features(feats))
	kind, detail := check(cs)
	res.Count("templates_rendered", 2)
	res.Count("expected_lines", int64(len(normLines(cs.expected))))
	for _, f := range cs.used {
		res.Count("feature:"+f, 1)
	}
	if kind != "" {
		// diagnosis by delta debugging on the AST and the data: apply reductions while the case keeps failing
		cur := cs
		for progress, rounds := true, 0; progress && rounds < 200; rounds++ {
			progress = false
			for _, red := range c16Reductions(cur) {
				trial := cur.clone()
				red(trial)
				trial.build()
				res.Count("shrink_reruns", 1)
				if k2, d2 := check(trial); k2 != "" {
					cur, kind, detail = trial, k2, d2
					progress = true
					break
				}
			}
		}
		var tp []string
		for _, t := range cur.templates {
			tp = append(tp, fmt.Sprintf("%s: %q", t[0], t[1]))
		}
		tokens := c16Describe(cur)
		for _, t := range tokens {
			if t == "value:directive-like" {
				// the shrinker keeps a directive-like value only if the failure needs it: the diagnosis is the value being re-scanned
				tokens = []string{"value:directive-like"}
				break
			}
		}
		res.Add("render/"+strings.Join(tokens, "+")+"/"+kind, "minimal failing case: "+strings.Join(tp, " ; ")+" -> "+detail,
			fmt.Sprintf("data: vars=%v conds=%v lists=%v", cur.data.vars, cur.data.conds, cur.data.lists), "expected: "+fmt.Sprintf("%q", cur.expected))
	}
	res.Nontrivial = len(cs.used) >= 2 && len(normLines(cs.expected)) > 0
	var tp []string
	for _, t := range cs.templates {
		tp = append(tp, t[1])
	}
	res.Sig = strings.Join(tp, "\x01") + fmt.Sprint(cs.data.vars, cs.data.conds, cs.data.lists)
	res.Sample = map[string]interface{}{"case": c.Case, "templates": cs.templates, "features": cs.used, "expected": cs.expected}
	return res
}

func init() {
	core.Register(&core.Check{
		ID:    "C16",
		Level: "exploration",
		Rule: "templates printed from a generated AST (literal text incl. single braces/}} fragments/XML metacharacters/newlines, {{var}}, {{#if}}/{{else}}, {{#each}} over scalars and maps with {{this}}/@index/@first/@last/fields/boolean-field conditionals/nested each, adjacent directives, blocks with a child overriding a subset, image placeholders on their own line) with data " +
			"(strings incl. directive-like text, multi-line, ints/int64/float64/bool/other numeric types, empty, missing variables/fields/conditions/lists, empty lists); rendered with RenderToDocument and RenderTemplateToDocument and compared line by line with the AST evaluated by the reference semantics " +
			"(whitespace-only lines equal empty; whitespace-only output may yield no paragraphs). Even cases use only the clean-core features. A failing case is shrunk by delta debugging on its AST and data (remove/unwrap nodes, plain literals and values, single items) while it keeps failing; the key is the construct vocabulary of the minimal failing case + mismatch kind. Non-trivial: >=2 features used and non-empty expected output; distinct = template text + data.",
		Cases:         func(t string) int { return tierN(t, 40000, 1500000) },
		Run:           c16Run,
		Assume:        []string{"not generated (left open by the documentation): a name used both as top-level variable and item field, {{this}} on map items, if nested in if, truthiness of non-boolean fields, conditionals inside loops over scalars, templates that are not well-formed, image placeholders inline with text or without data", "run formatting of the produced paragraphs is not compared"},
		CaseTimeoutS:  60,
		MinNontrivial: 500,
	})
}
