package props

import (
	"bytes"
	"fmt"
	"io"
	"os"
	"path/filepath"
	"regexp"
	"sort"
	"strings"

	"github.com/zerx-lab/wordZero/pkg/document"

	"verifharness/internal/canon"
	"verifharness/internal/core"
	"verifharness/internal/gen"
	"verifharness/internal/opc"
	"verifharness/internal/rng"
)

// regenerated: the parts the library is documented to rewrite on save.
var c04Regenerated = map[string]bool{"word/document.xml": true, "[Content_Types].xml": true, "_rels/.rels": true, "word/_rels/document.xml.rels": true}

// runTextOf concatenates every w:t of the main part in document order (deleted text is w:delText and not included).
func runTextOf(p *opc.Package) (string, bool) {
	root, pr := p.Tree("word/document.xml")
	if root == nil || len(pr) > 0 {
		return "", false
	}
	var sb strings.Builder
	for _, t := range root.Find(opc.NsW, "t") {
		sb.WriteString(t.Text)
	}
	return sb.String(), true
}

// c04SupersededOnly: a header/footer part may change only when every kind the opened package showed it for was given a
// new definition by an edit (a part no reference used may be reused freely).
func c04SupersededOnly(kindsOfPart []string, touched map[string]bool) bool {
	any := false
	for k := range touched {
		any = any || strings.HasPrefix(k, "hf:")
	}
	if !any {
		return false
	}
	for _, k := range kindsOfPart {
		if !touched["hf:"+k] {
			return false
		}
	}
	return true
}

func c04Case(c *core.Ctx) *core.Result {
	res := &core.Result{}
	document.VerifResetGlobals()
	r := caseRng(c)
	f := gen.MakeForeign(rng.Derive(c.Seed, h64("C04foreign"), uint64(c.Case)), gen.ForeignOpts{})
	if m := regexp.MustCompile(`</((?:\w+:)?)Types>\s*$`).FindSubmatchIndex(f.Parts["[Content_Types].xml"]); c.Case == 11 && m != nil {
		// one package with a very large part (an embedded recording, a scan): 64 MiB and a bit, written back byte for byte like
		// any other part
		big := make([]byte, 64<<20+4096)
		for i := 0; i < len(big); i += 4093 {
			big[i] = byte(i >> 12)
		}
		copy(big[len(big)-16:], "end-of-big-part!")
		f.Parts["word/embeddings/recording.bin"] = big
		f.Order = append(f.Order, "word/embeddings/recording.bin")
		ct := f.Parts["[Content_Types].xml"]
		pfx := string(ct[m[2]:m[3]])
		f.Parts["[Content_Types].xml"] = []byte(string(ct[:m[0]]) + "<" + pfx + `Override PartName="/word/embeddings/recording.bin" ContentType="application/octet-stream"/>` + string(ct[m[0]:]))
		res.Count("packages_with_a_part_above_64MiB", 1)
	}
	raw := f.Bytes(rng.Derive(c.Seed, 13, uint64(c.Case)))
	P := opc.Read(raw)
	if probs := append(P.CheckC01(), P.CheckC02()...); len(probs) > 0 {
		res.Inconcl = fmt.Sprintf("harness: generated foreign package is rejected by the monitor itself: %+v", probs[0])
		return res
	}
	ptext, _ := runTextOf(P)
	var d *document.Document
	var err error
	if cg := core.Catch(func() { d, err = document.OpenFromMemory(io.NopCloser(bytes.NewReader(raw))) }); cg != nil {
		res.Add("open/"+cg.Key(), "opening a well-formed foreign package panicked: "+cg.Msg, cg.Stack)
		return res
	}
	if err != nil || d == nil || d.Body == nil {
		res.Count("open_errors", 1)
		return res
	}
	// edit script: nothing, or append-only edits (they must not touch what is already there)
	edits := []string{}
	touched := map[string]bool{} // parts an edit is entitled to create or extend
	serial := 0
	nEdits := 0
	if c.Case%3 != 0 {
		nEdits = r.Range(1, 8)
	}
	tocEdit := false
	kinds := []document.HeaderFooterType{document.HeaderFooterTypeDefault, document.HeaderFooterTypeFirst, document.HeaderFooterTypeEven}
	kindNames := []string{"default", "first", "even"}
	// which header/footer part the opened package shows for which kind: a call for one kind may replace that part only
	hfKinds := map[string][]string{} // part name -> "header:default", ...
	if root, pr := P.Tree("word/document.xml"); root != nil && len(pr) == 0 {
		rels, _ := P.Rels("word/_rels/document.xml.rels")
		for _, what := range []string{"header", "footer"} {
			for _, ref := range root.Find(opc.NsW, what+"Reference") {
				id, _ := ref.Attr(opc.NsR, "id")
				for _, rel := range rels {
					if rel.ID == id && !rel.External() {
						part := opc.ResolveTarget("word/document.xml", rel.Target)
						hfKinds[part] = append(hfKinds[part], what+":"+ref.AttrW("type"))
					}
				}
			}
		}
	}
	for i := 0; i < nEdits; i++ {
		var name string
		cg := core.Catch(func() {
			switch r.Intn(13) {
			case 12:
				// the document properties are the library's to write; the relationships the package came with stay as they are
				name = "Properties"
				switch r.Intn(4) {
				case 0:
					d.SetTitle("⟦new⟧ title")
				case 1:
					d.SetAuthor("someone else")
				case 2:
					d.UpdateStatistics()
				case 3:
					d.SetKeywords("a, b")
				}
				touched["docProps/core.xml"], touched["docProps/app.xml"] = true, true
			case 11:
				// a picture paragraph of the opened body is removed again (it carries no text): the picture's file may still be
				// shown elsewhere - by a header through the header's own relationships - and is a part like any other
				name = "RemovePictureParagraph"
				for _, el := range d.Body.Elements {
					if p, ok := el.(*document.Paragraph); ok {
						pic, txt := false, false
						for _, run := range p.Runs {
							pic = pic || run.Drawing != nil
							txt = txt || run.Text.Content != ""
						}
						if pic && !txt {
							if r.Bool() {
								d.RemoveParagraph(p)
							} else {
								for i, e2 := range d.Body.Elements {
									if e2 == el {
										d.RemoveElementAt(i)
										break
									}
								}
							}
							res.Count("picture_paragraphs_removed", 1)
							break
						}
					}
				}
			case 9:
				name = "UpdateTOC"
				d.UpdateTOC() // an error ("no table of contents") is a legitimate answer
				touched["word/styles.xml"] = true
			case 10:
				name = "AutoGenerateTOC"
				tocEdit = true
				d.AutoGenerateTOC(document.DefaultTOCConfig())
				touched["word/styles.xml"] = true
			case 0, 1:
				name = "AddParagraph"
				d.AddParagraph("⟦new⟧ " + gen.SafeString(r))
			case 2:
				name = "AddImageFromData"
				for k, n := 0, r.Range(1, 4); k < n; k++ { // several pictures: the new names must step over every existing media name
					serial++
					im := gen.MakeImage([]string{"png", "png", "jpeg", "gif"}[r.Intn(4)], 660000+c.Case*10+serial, 3, 3)
					d.AddImageFromData(im.Data, []string{"image1.png", "x.jpg", "图.gif"}[r.Intn(3)], imgFormat(im.Format), im.W, im.H, nil)
				}
			case 3:
				name = "AddHeader/Footer"
				k := r.Intn(3)
				if r.Bool() {
					d.AddHeader(kinds[k], "new header")
					touched["hf:header:"+kindNames[k]] = true
				} else {
					d.AddFooter(kinds[k], "new footer")
					touched["hf:footer:"+kindNames[k]] = true
				}
			case 4:
				name = "AddListItem"
				d.AddBulletList("⟦new⟧ item", r.Range(0, 2), document.BulletTypeDot)
				touched["word/numbering.xml"] = true
			case 5:
				name = "AddFootnote"
				d.AddFootnote("⟦new⟧ text", "note text")
				touched["word/footnotes.xml"] = true
			case 6:
				name = "SetFootnoteConfig"
				d.SetFootnoteConfig(&document.FootnoteConfig{NumberFormat: document.FootnoteFormatLowerRoman, StartNumber: 1, RestartEach: document.FootnoteRestartContinuous, Position: document.FootnotePositionPageBottom})
				touched["word/settings.xml"] = true
			case 7:
				name = "SetPageMargins"
				d.SetPageMargins(20, 20, 20, 20)
			case 8:
				name = "AddHeadingParagraph"
				d.AddHeadingParagraph("⟦new⟧ heading", r.Range(1, 3))
				touched["word/styles.xml"] = true
			}
		})
		if cg != nil {
			res.Add("edit/"+name+"/"+cg.Key(), name+" on an opened foreign package panicked: "+cg.Msg, cg.Stack)
			return res
		}
		edits = append(edits, name)
	}
	var out []byte
	viaFile := r.Bool() // both writers are "saving"
	if cg := core.Catch(func() {
		if viaFile {
			path := filepath.Join(c.WorkDir, fmt.Sprintf("c04-%d.docx", c.Case))
			defer os.Remove(path)
			if err = d.Save(path); err == nil {
				out, err = os.ReadFile(path)
			}
			return
		}
		out, err = d.ToBytes()
	}); cg != nil {
		res.Add("save/"+cg.Key(), "saving the opened package panicked: "+cg.Msg, cg.Stack)
		return res
	}
	if err != nil {
		res.Add("save/error", "saving the opened package failed: "+err.Error())
		return res
	}
	Q := opc.Read(out)
	if c.Verbose {
		fmt.Printf("---- opened main part ----\n%s\n---- saved main part ----\n%s\n", P.Parts["word/document.xml"], Q.Parts["word/document.xml"])
	}
	mode := "no-edit"
	if nEdits > 0 {
		mode = "edited"
	}
	note := "features: " + strings.Join(f.Features, ",") + " ; edits: " + strings.Join(edits, " ")
	res.Count("packages_resaved", 1)
	// (a) parts
	var names []string
	for n := range P.Parts {
		names = append(names, n)
	}
	sort.Strings(names)
	for _, n := range names {
		res.Count("parts_compared", 1)
		qb, ok := Q.Parts[n]
		cls := opc.Class(n)
		isHF := strings.HasPrefix(n, "word/header") || strings.HasPrefix(n, "word/footer")
		switch {
		case !ok:
			res.Add(mode+"/part-missing/"+cls, "part "+n+" of the opened package is not in the saved package", note)
		case c04Regenerated[n]:
		case bytes.Equal(P.Parts[n], qb):
		case touched[n] || (isHF && c04SupersededOnly(hfKinds[n], touched)):
			// an edit that legitimately extends this part: it must still contain everything it had (checked below for relationships / text)
			res.Count("parts_legitimately_extended", 1)
		default:
			what := "changed"
			if opc.IsXMLName(n) && canon.EqualXML(P.Parts[n], qb, nil) {
				what = "rewritten(semantically-equal)"
			}
			res.Add(mode+"/part-"+what+"/"+cls, fmt.Sprintf("part %s is not written back byte-for-byte (%d -> %d bytes)", n, len(P.Parts[n]), len(qb)), note)
		}
	}
	// (b) content types
	if pct, ok := P.ContentTypes(); ok {
		if qct, ok2 := Q.ContentTypes(); ok2 {
			for n := range P.Parts {
				if n == "[Content_Types].xml" {
					continue
				}
				if pt, qt := pct.TypeOf(n), qct.TypeOf(n); pt != "" && pt != qt && Q.Has(n) {
					res.Add(mode+"/content-type-changed/"+opc.Class(n), fmt.Sprintf("part %s had content type %q and now has %q", n, pt, qt), note)
				}
			}
			res.Count("content_types_compared", 1)
		}
	}
	// (c) relationships keep id, type, target, mode
	for n := range P.Parts {
		if !strings.HasSuffix(n, ".rels") {
			continue
		}
		prels, _ := P.Rels(n)
		qrels, _ := Q.Rels(n)
		qi := map[string]opc.Rel{}
		for _, x := range qrels {
			qi[x.ID] = x
		}
		for _, x := range prels {
			res.Count("relationships_compared", 1)
			y, ok := qi[x.ID]
			cls := opc.Class(n) + "/type=" + x.ShortType()
			switch {
			case !ok:
				res.Add(mode+"/relationship-lost-or-renumbered/"+cls, fmt.Sprintf("%s: relationship %s (%s -> %s) is gone or has another id", n, x.ID, x.ShortType(), x.Target), note)
			case y.Type != x.Type || y.Target != x.Target || y.External() != x.External():
				res.Add(mode+"/relationship-changed/"+cls, fmt.Sprintf("%s: relationship %s was {%s %s ext=%v} and is {%s %s ext=%v}", n, x.ID, x.Type, x.Target, x.External(), y.Type, y.Target, y.External()), note)
			}
		}
	}
	// (d) run text
	if qtext, ok := runTextOf(Q); ok {
		res.Count("run_text_compared", 1)
		lost := ""
		nested := false
		for _, ft := range f.Features {
			if ft == "nested-table" {
				nested = true
			}
			if ft == "toc-paragraphs" && strings.Contains(strings.Join(edits, ","), "TOC") {
				// the entries of a table of contents are the library's to rewrite when it is asked to refresh or regenerate one;
				// every other run text of the opened body has to be there
				nested = true
			}
		}
		if nested {
			// a cell that holds paragraphs around a nested table: the statement protects the text, not the order inside such a cell
			for _, rt := range f.RunTexts {
				if strings.TrimSpace(rt) != "" && strings.Count(qtext, rt) < 1 {
					lost = "misses-run-text"
				}
			}
		} else if nEdits == 0 && qtext != ptext {
			lost = "differs"
		} else if tocEdit {
			// a generated table of contents goes in front of the body: the opened text stays one contiguous stretch
			if !strings.Contains(qtext, ptext) {
				lost = "is-not-contiguous-after-insert-at-either-end-edits"
			}
		} else if !strings.HasPrefix(qtext, ptext) {
			lost = "is-not-a-prefix-after-append-only-edits"
		}
		if lost != "" {
			// diagnose which construct carried the text that went missing (the generator's words are unique tokens)
			missing := map[string]bool{}
			for _, wt := range f.Wrapped {
				if wt.Text != "" && !strings.Contains(qtext, wt.Text) {
					missing[wt.Kind] = true
				}
			}
			var constructs []string
			for k := range missing {
				constructs = append(constructs, k)
			}
			sort.Strings(constructs)
			cls := "plain-runs"
			if len(constructs) > 0 {
				cls = strings.Join(constructs, "+")
			}
			res.Add(mode+"/run-text-lost/"+cls, fmt.Sprintf("run text of the main part %s: %q -> %q", lost, lastStr(ptext, 160), lastStr(qtext, 160)), note)
		}
	} else {
		res.Add(mode+"/main-part-illformed", "the saved main part is not well-formed", note)
	}
	res.Nontrivial = res.Stats["parts_compared"] >= 4
	res.Sig = mode + "|" + strings.Join(f.Features, ",") + "|" + strings.Join(edits, ",") + fmt.Sprint(len(raw))
	res.Sample = map[string]interface{}{"case": c.Case, "features": f.Features, "edits": edits, "parts": len(P.Parts)}
	return res
}

func init() {
	core.Register(&core.Check{
		ID:    "C04",
		Level: "exploration",
		Rule: "packages written by the harness' own writer (arbitrary prefixes / default namespace, hyperlinks internal and external, smart tags, tracked insertions, inline content controls, simple fields, tabs/breaks, tables with and without grid, nested tables, theme/fontTable/settings/webSettings/customXml with own rels/numbering/footnotes/comments/headers with own rels and images/docProps/thumbnail, media names of any pattern, unused Default entries, sparse and non-rId relationship ids) are opened and saved again, one third without edits, the rest after 1-8 append-only edits (paragraphs, images, headers/footers, list items, footnotes, footnote config, margins, headings). " +
			"Oracle: every part outside {main part, content types, package rels, main part rels} is byte-identical unless an edit legitimately extends it (numbering/notes/settings/styles/header parts); content type per part unchanged; every relationship of every .rels part keeps id, type, target, mode; the concatenated w:t text of the main part is unchanged (no edit) or a prefix (append-only edits). Non-trivial: >=4 parts compared; distinct = features + edits.",
		Cases:         func(t string) int { return tierN(t, 8000, 80000) },
		Run:           c04Case,
		Assume:        []string{"formatting the reader does not model is outside this property; only text carried by runs and the package-level facts are protected", "edits are append-only so that the expected text is a prefix"},
		CaseTimeoutS:  60,
		MinNontrivial: 300,
	})
}
