package props

import (
	"bytes"
	"fmt"
	"io"
	"regexp"
	"sort"
	"strings"
	"unicode/utf8"

	"github.com/zerx-lab/wordZero/pkg/document"

	"verifharness/internal/canon"
	"verifharness/internal/core"
	"verifharness/internal/gen"
	"verifharness/internal/opc"
	"verifharness/internal/rng"
)

// ---- independent view of a saved document: paragraphs with their runs ----

type vRun struct {
	text    string
	sig     string // canonical w:rPr
	breaks  int
	drawing int
	embeds  []string // r:embed ids of the pictures in this run
	descrs  []string // description + "|" + title of those pictures (wp:docPr), same order
}

type vPara struct {
	runs []vRun
	ppr  string // canonical w:pPr
	loc  string // body | cell | nested-cell
	row  string // for cells: table/row/col path
}

func (p *vPara) text() string {
	var sb strings.Builder
	for _, r := range p.runs {
		sb.WriteString(r.text)
	}
	return sb.String()
}

type vDoc struct {
	paras      []*vPara
	byToken    map[string]*vPara
	bodyKinds  []string // kinds of the body children in order (p / tbl / sectPr / ...)
	sectPr     string
	tables     [][][]string // body tables: rows x cells -> text
	hdrText    map[string]string
	parts      map[string][]byte
	wellFormed bool
	relTarget  map[string]string // main part relationship id -> part name
}

var tokenRe = regexp.MustCompile(`⟦[^⟧]*⟧`)

func viewDoc(raw []byte) *vDoc {
	v := &vDoc{byToken: map[string]*vPara{}, hdrText: map[string]string{}}
	p := opc.Read(raw)
	v.parts = p.Parts
	v.relTarget = map[string]string{}
	if rels, ok := p.Rels("word/_rels/document.xml.rels"); ok {
		for _, rl := range rels {
			if !rl.External() {
				v.relTarget[rl.ID] = opc.ResolveTarget("word/document.xml", rl.Target)
			}
		}
	}
	root, pr := p.Tree("word/document.xml")
	if root == nil || len(pr) > 0 {
		return v
	}
	v.wellFormed = true
	body := root.Child(opc.NsW, "body")
	if body == nil {
		return v
	}
	sig := func(n *opc.Node) string {
		if n == nil {
			return ""
		}
		c := canon.Build(n, nil)
		if len(c.Children) == 0 && len(c.Attrs) == 0 {
			return ""
		}
		return c.String()
	}
	var para func(n *opc.Node, loc, row string)
	para = func(n *opc.Node, loc, row string) {
		vp := &vPara{loc: loc, row: row, ppr: sig(n.Child(opc.NsW, "pPr"))}
		for _, rn := range n.Find(opc.NsW, "r") {
			vr := vRun{sig: sig(rn.Child(opc.NsW, "rPr"))}
			for _, k := range rn.Children {
				switch {
				case k.Is(opc.NsW, "t"):
					vr.text += k.Text
				case k.Is(opc.NsW, "br"):
					vr.breaks++
				case k.Is(opc.NsW, "drawing"):
					vr.drawing++
					for _, bl := range k.Find(opc.NsA, "blip") {
						if id, ok := bl.Attr(opc.NsR, "embed"); ok {
							vr.embeds = append(vr.embeds, id)
							dt := ""
							if dp := k.Find(opc.NsWP, "docPr"); len(dp) > 0 {
								de, _ := dp[0].Attr("", "descr")
								ti, _ := dp[0].Attr("", "title")
								dt = de + "|" + ti
							}
							vr.descrs = append(vr.descrs, dt)
						}
					}
				case k.Is(opc.NsW, "tab"):
					vr.text += "\t"
				}
			}
			vp.runs = append(vp.runs, vr)
		}
		v.paras = append(v.paras, vp)
		for _, tk := range tokenRe.FindAllString(vp.text(), -1) {
			v.byToken[tk] = vp
		}
	}
	var table func(t *opc.Node, depth int, path string) [][]string
	table = func(t *opc.Node, depth int, path string) [][]string {
		var rows [][]string
		for ri, tr := range t.ChildrenOf(opc.NsW, "tr") {
			var cells []string
			for ci, tc := range tr.ChildrenOf(opc.NsW, "tc") {
				var sb strings.Builder
				loc := "cell"
				if depth > 0 {
					loc = "nested-cell"
				}
				for _, k := range tc.Children {
					switch {
					case k.Is(opc.NsW, "p"):
						para(k, loc, fmt.Sprintf("%s/%d/%d", path, ri, ci))
						for _, tt := range k.Find(opc.NsW, "t") {
							sb.WriteString(tt.Text)
						}
					case k.Is(opc.NsW, "tbl"):
						// the text of a nested table is part of the cell's text (in brackets, cells separated by '|', rows by '/')
						var nr []string
						for _, row := range table(k, depth+1, fmt.Sprintf("%s/%d/%d", path, ri, ci)) {
							nr = append(nr, strings.Join(row, "|"))
						}
						sb.WriteString("[[" + strings.Join(nr, "/") + "]]")
					}
				}
				cells = append(cells, sb.String())
			}
			rows = append(rows, cells)
		}
		return rows
	}
	ti := 0
	for _, k := range body.Children {
		v.bodyKinds = append(v.bodyKinds, k.Local)
		switch {
		case k.Is(opc.NsW, "p"):
			para(k, "body", "")
		case k.Is(opc.NsW, "tbl"):
			v.tables = append(v.tables, table(k, 0, fmt.Sprint(ti)))
			ti++
		case k.Is(opc.NsW, "sectPr"):
			c := canon.Build(k, &canon.Options{DropAttrs: map[string]bool{"r:id": true}})
			v.sectPr = c.String()
		}
	}
	for name, b := range p.Parts {
		if strings.HasPrefix(name, "word/header") || strings.HasPrefix(name, "word/footer") {
			if hr, hp := opc.ParseXML(b); hr != nil && len(hp) == 0 {
				var sb strings.Builder
				for _, tt := range hr.Find(opc.NsW, "t") {
					sb.WriteString(tt.Text)
				}
				v.hdrText[name] = sb.String()
			} else {
				v.hdrText[name] = "\x00ILLFORMED"
			}
		}
	}
	return v
}

// stream lists what a reader meets in the given paragraphs, in order: text (white space removed, adjacent pieces joined) and
// pictures (named through pic: bytes -> name; a picture that shows none of the supplied bytes is "?").
func (v *vDoc) stream(paras []*vPara, pic func([]byte) string) []string {
	var out []string
	text := func(t string) {
		t = strings.Join(strings.Fields(t), "")
		if t == "" {
			return
		}
		if n := len(out); n > 0 && strings.HasPrefix(out[n-1], "T:") {
			out[n-1] += t
			return
		}
		out = append(out, "T:"+t)
	}
	for _, p := range paras {
		for _, r := range p.runs {
			text(r.text)
			for _, id := range r.embeds {
				out = append(out, "P:"+pic(v.parts[v.relTarget[id]]))
			}
			if r.drawing > len(r.embeds) {
				out = append(out, "P:?")
			}
		}
	}
	return out
}

// chars flattens a paragraph into (rune, run signature) pairs.
type fch struct {
	r   rune
	sig string
}

func (p *vPara) chars() []fch {
	var out []fch
	for _, r := range p.runs {
		for _, c := range r.text {
			out = append(out, fch{c, r.sig})
		}
	}
	return out
}

// ---- generator ----

type c18Seg struct {
	lit string
	ph  string // placeholder name ("" = literal)
}

type c18Para struct {
	token     string
	segs      []c18Seg
	loc       string
	split     bool   // some placeholder is cut by a run boundary
	extra     string // "" | "break" | "drawing"
	emptyRuns int    // runs without text between the pieces
}

func (p *c18Para) fullText() string {
	var sb strings.Builder
	for _, s := range p.segs {
		if s.ph != "" {
			sb.WriteString("{{" + s.ph + "}}")
		} else {
			sb.WriteString(s.lit)
		}
	}
	return sb.String()
}

var c18Formats = []*document.TextFormat{
	{Bold: true}, {Italic: true, FontColor: "FF0000"}, {FontSize: 16, FontFamily: "Arial"}, {Underline: true, Strike: true}, {Highlight: "yellow", Bold: true, Italic: true}, {FontColor: "0000FF", FontSize: 9},
}

// cuts chooses run boundaries (rune-aligned byte offsets) for a text; with force, one cut lands inside a placeholder.
func c18Cuts(r *rng.R, text string, runs int, forceInside bool) []int {
	var bounds []int
	for i := range text {
		if i > 0 {
			bounds = append(bounds, i)
		}
	}
	set := map[int]bool{}
	if forceInside {
		if i := strings.Index(text, "{{"); i >= 0 {
			j := strings.Index(text[i:], "}}")
			if j > 0 {
				// any position strictly inside {{name}}
				set[i+1+r.Intn(j+1)] = true
			}
		}
	}
	for len(set) < runs-1 && len(bounds) > 0 && len(set) < len(bounds) {
		set[bounds[r.Intn(len(bounds))]] = true
	}
	var out []int
	for k := range set {
		if k > 0 && k < len(text) && utf8.RuneStart(text[k]) {
			out = append(out, k)
		}
	}
	sort.Ints(out)
	return out
}

func c18Literal(r *rng.R) string {
	switch r.Intn(6) {
	case 0:
		return " " + gen.Word(r, 1, 6) + " "
	case 1:
		return gen.Word(r, 1, 4) + ": "
	case 2:
		return "中文 " + gen.Word(r, 1, 3)
	case 3:
		return "{single} } brace { "
	}
	return gen.Word(r, 1, 8)
}

var c18Values = []string{"plain", "a<b&c>\"d'e", "<w:t>x</w:t>", "&amp;", "multi word value", "值 中文", "", "{{v1}}", "x}}y{{", "{{#if zz}}", "{{/if}}", "{{else}}", "ctl\x01char", "bell\x07 and \x1f", "bad\xffutf8", "nul\x00byte"}

// xmlCarried is what an XML part can carry of a value: characters outside the XML Char production and invalid
// UTF-8 are replaced by U+FFFD by every correct writer.
func xmlCarried(v string) string {
	var sb strings.Builder
	for _, r := range v {
		ok := r == 0x9 || r == 0xA || r == 0xD || (r >= 0x20 && r <= 0xD7FF) || (r >= 0xE000 && r <= 0xFFFD) || (r >= 0x10000 && r <= 0x10FFFF)
		if !ok || r == utf8.RuneError {
			sb.WriteRune(0xFFFD)
		} else {
			sb.WriteRune(r)
		}
	}
	return sb.String()
}

type c18Model struct {
	paras      []*c18Para
	vars       map[string]string
	loop       bool
	loopCols   []string // cell texts of the loop row without the each markers
	loopNested []string // cell texts of the 1x2 table nested in cell 1 of the loop row, if any
	items      []map[string]interface{}
	hdr        string // header text pattern (with placeholder) or ""
	hdrSplit   bool
	image      bool
	pics       map[string][]byte // image placeholder name -> picture supplied for it
	picAlt     map[string]string // name -> description given with the picture ("" = none)
	imgCell    bool              // a table right after the image paragraphs holds an image placeholder in a cell
}

func c18LoopLit(r *rng.R) string {
	return []string{"", "", "x ", " y", "№ ", ": "}[r.Intn(6)]
}

func c18Build(c *core.Ctx, r *rng.R) (*document.Document, *c18Model) {
	d := document.New()
	m := &c18Model{vars: map[string]string{}}
	serial := 0
	newPara := func(loc string) *c18Para {
		serial++
		p := &c18Para{token: fmt.Sprintf("⟦p%d⟧", serial), loc: loc}
		p.segs = append(p.segs, c18Seg{lit: p.token + c18Literal(r)})
		for i, n := 0, r.Range(0, 3); i < n; i++ {
			name := fmt.Sprintf("v%d", r.Intn(6))
			p.segs = append(p.segs, c18Seg{ph: name})
			if r.Chance(3, 4) {
				p.segs = append(p.segs, c18Seg{lit: c18Literal(r)})
			}
		}
		return p
	}
	// writes the paragraph's runs through add(text, format) calls
	emit := func(p *c18Para, first func(text string, f *document.TextFormat), more func(text string, f *document.TextFormat)) {
		text := p.fullText()
		runs := r.Range(1, 4)
		hasPh := strings.Contains(text, "{{")
		force := hasPh && runs > 1 && r.Chance(2, 3)
		cuts := c18Cuts(r, text, runs, force)
		prev := 0
		fi := r.Intn(len(c18Formats))
		for i, cpos := range append(cuts, len(text)) {
			f := c18Formats[(fi+i)%len(c18Formats)]
			if i == 0 {
				first(text[prev:cpos], f)
			} else {
				if r.Chance(1, 5) {
					// a run without any text at the boundary (formatting only: what an editor leaves behind, or a w:tab / w:sym run
					// after opening): a zero-length piece of the segmentation, possibly inside a placeholder
					more("", c18Formats[(fi+i+3)%len(c18Formats)])
					p.emptyRuns++
				}
				more(text[prev:cpos], f)
			}
			prev = cpos
		}
		// is a placeholder cut?
		for _, cpos := range cuts {
			for _, mm := range regexp.MustCompile(`\{\{\w+\}\}`).FindAllStringIndex(text, -1) {
				if cpos > mm[0] && cpos < mm[1] {
					p.split = true
				}
			}
		}
	}
	// body paragraphs
	for i, n := 0, r.Range(2, 6); i < n; i++ {
		p := newPara("body")
		var bp *document.Paragraph
		emit(p, func(t string, f *document.TextFormat) { bp = d.AddFormattedParagraph(t, f) }, func(t string, f *document.TextFormat) { bp.AddFormattedText(t, f) })
		switch r.Intn(6) {
		case 0:
			bp.SetAlignment(document.AlignCenter)
		case 1:
			bp.SetSpacing(&document.SpacingConfig{BeforePara: 6, AfterPara: 3, LineSpacing: 1.5})
		case 2:
			bp.SetKeepWithNext(true)
			bp.SetIndentation(0.5, 1, 0)
		}
		if r.Chance(1, 6) {
			bp.AddPageBreak()
			p.extra = "break"
		} else if len(bp.Runs) > 0 && r.Chance(1, 8) {
			// a run that carries its text and a break (what Word writes for a line break at the end of a formatted stretch)
			k := len(bp.Runs) - 1
			if !p.split {
				k = r.Intn(len(bp.Runs)) // (a break between the pieces of one placeholder has no defined place afterwards)
			}
			bp.Runs[k].Break = &document.Break{Type: []string{"page", ""}[r.Intn(2)]}
			p.extra = "break-in-text-run"
		}
		m.paras = append(m.paras, p)
		if r.Chance(1, 5) {
			d.AddParagraph("literal only " + gen.Word(r, 1, 5))
		}
	}
	// a table with placeholders in cells and a nested table
	if r.Chance(2, 3) {
		if t, err := d.AddTable(&document.TableConfig{Rows: 2, Cols: 2, Width: 6000}); err == nil && t != nil {
			for row := 0; row < 2; row++ {
				for col := 0; col < 2; col++ {
					if row == 1 && col == 1 && r.Bool() {
						if nt, err := t.AddNestedTable(1, 1, &document.TableConfig{Rows: 1, Cols: 2, Width: 2500}); err == nil && nt != nil {
							for nc := 0; nc < 2; nc++ {
								p := newPara("nested-cell")
								nc := nc
								emit(p, func(tx string, f *document.TextFormat) { nt.SetCellFormattedText(0, nc, tx, f) }, func(tx string, f *document.TextFormat) { nt.AddCellFormattedText(0, nc, tx, f) })
								m.paras = append(m.paras, p)
							}
						}
						continue
					}
					p := newPara("cell")
					row, col := row, col
					emit(p, func(tx string, f *document.TextFormat) { t.SetCellFormattedText(row, col, tx, f) }, func(tx string, f *document.TextFormat) { t.AddCellFormattedText(row, col, tx, f) })
					m.paras = append(m.paras, p)
				}
			}
		}
	}
	// a loop table: header row, loop row, fixed rows
	if r.Chance(1, 2) {
		m.loop = true
		tail := r.Range(0, 2)
		cols := r.Range(2, 4)
		m.loopCols = make([]string, cols)
		m.loopCols[0] = c18LoopLit(r) + "{{k}}"
		m.loopCols[cols-1] = "{{val}}" + c18LoopLit(r)
		for cidx := 1; cidx < cols-1; cidx++ {
			m.loopCols[cidx] = c18LoopLit(r) + fmt.Sprintf("{{o%d}}", cidx) + c18LoopLit(r)
		}
		if t, err := d.AddTable(&document.TableConfig{Rows: 2 + tail, Cols: cols, Width: 6000}); err == nil && t != nil {
			t.SetCellText(0, 0, "⟦loophead⟧ Key")
			t.SetCellText(0, cols-1, "Val")
			if r.Bool() {
				// ordinary placeholders in the rows around the loop row
				t.SetCellText(0, cols-1, "Val {{v0}}")
			}
			for cidx := 0; cidx < cols; cidx++ {
				txt := m.loopCols[cidx]
				if cidx == 0 {
					txt = "{{#each rows}}" + txt
				}
				if cidx == cols-1 {
					txt += "{{/each}}"
				}
				t.SetCellText(1, cidx, txt)
			}
			if cols >= 3 && r.Bool() {
				// a nested table with the item's fields inside a cell of the loop row
				if nt, err := t.AddNestedTable(1, 1, &document.TableConfig{Rows: 1, Cols: 2, Width: 2000}); err == nil && nt != nil {
					m.loopNested = []string{"n {{k}}", c18LoopLit(r) + "{{o2}}"}
					nt.SetCellText(0, 0, m.loopNested[0])
					nt.SetCellText(0, 1, m.loopNested[1])
				}
			}
			for i := 0; i < tail; i++ {
				t.SetCellText(2+i, 0, fmt.Sprintf("⟦looptail%d⟧ TOTAL", i)+[]string{"", " {{v1}}", " of {{v2}}"}[r.Intn(3)])
				t.SetCellText(2+i, cols-1, fmt.Sprint(100+i))
			}
		}
		for i, n := 0, r.Range(0, 3); i < n; i++ {
			it := map[string]interface{}{"k": fmt.Sprintf("key%d", i), "val": c18Values[r.Intn(5)]}
			if r.Chance(1, 5) {
				it["val"] = []string{"{{k}}", "{{o1}}", "see {{o2}}"}[r.Intn(3)] // a value that looks like another field's placeholder: still a value
			}
			// optional fields: items of one list need not have the same key set
			for _, f := range []string{"o1", "o2"} {
				if r.Chance(3, 5) {
					it[f] = fmt.Sprintf("%s-of-%d", f, i)
				}
			}
			m.items = append(m.items, it)
		}
	}
	if r.Chance(1, 3) {
		// image placeholders: alone in their paragraph or with text around them, one or two per paragraph, several paragraphs in a
		// row or with other paragraphs in between, and in a table cell right behind such a paragraph; every name has its own picture
		m.image = true
		m.pics = map[string][]byte{}
		names := []string{"pic", "pic2", "pic3"}
		ph := func() string {
			n := names[r.Intn(len(names))]
			if m.pics[n] == nil {
				m.pics[n] = gen.MakeImage([]string{"png", "jpeg", "gif"}[r.Intn(3)], 880000+c.Case*8+len(m.pics), r.Range(3, 6), r.Range(3, 6)).Data
			}
			return "{{#image " + n + "}}"
		}
		nBody := r.Range(1, 4)
		onlyInCells := r.Chance(1, 4) // no image placeholder outside the table
		if onlyInCells {
			nBody = 0
		}
		for i, n := 0, nBody; i < n; i++ {
			serial++
			txt := ph()
			switch r.Intn(6) {
			case 0:
				txt = fmt.Sprintf("⟦i%d⟧ Logo: ", serial) + txt + " after"
			case 1:
				txt = fmt.Sprintf("⟦i%d⟧ before ", serial) + txt
			case 2:
				txt = txt + fmt.Sprintf(" ⟦i%d⟧ behind", serial)
			case 3:
				txt = txt + " and " + ph()
			}
			d.AddParagraph(txt)
			if r.Chance(1, 3) {
				p := newPara("body")
				var bp *document.Paragraph
				emit(p, func(t string, f *document.TextFormat) { bp = d.AddFormattedParagraph(t, f) }, func(t string, f *document.TextFormat) { bp.AddFormattedText(t, f) })
				m.paras = append(m.paras, p)
			}
		}
		if onlyInCells || r.Chance(1, 3) {
			if t, err := d.AddTable(&document.TableConfig{Rows: 1, Cols: 2, Width: 5000}); err == nil && t != nil {
				m.imgCell = true
				t.SetCellText(0, 0, "⟦imgtbl⟧ picture:")
				t.SetCellText(0, 1, ph())
				if r.Chance(1, 3) {
					// and one in a table nested in the first cell
					if nt, err := t.AddNestedTable(0, 0, &document.TableConfig{Rows: 1, Cols: 1, Width: 2000}); err == nil && nt != nil {
						nt.SetCellText(0, 0, ph())
					}
				}
			}
		}
		p := newPara("body")
		var bp *document.Paragraph
		emit(p, func(t string, f *document.TextFormat) { bp = d.AddFormattedParagraph(t, f) }, func(t string, f *document.TextFormat) { bp.AddFormattedText(t, f) })
		m.paras = append(m.paras, p)
	}
	if r.Chance(1, 2) {
		m.hdr = "⟦hdr⟧ Report {{v0}}"
		if r.Bool() {
			m.hdr += " - {{v5}} end"
		}
		d.AddHeader(document.HeaderFooterTypeDefault, m.hdr)
		ftr := "⟦ftr⟧ {{v1}} footer"
		if r.Chance(1, 3) {
			ftr += " {{v2}}"
		}
		d.AddFooter(document.HeaderFooterTypeDefault, ftr)
	}
	if r.Bool() {
		d.SetPageOrientation(document.OrientationLandscape)
		d.SetPageMargins(10, 11, 12, 13)
	}
	// data: some names stay without data
	for i := 0; i < 6; i++ {
		if r.Chance(2, 3) {
			m.vars[fmt.Sprintf("v%d", i)] = c18Values[r.Intn(len(c18Values))]
		}
	}
	return d, m
}

func c18Case(c *core.Ctx) *core.Result {
	res := &core.Result{}
	r := caseRng(c)
	document.VerifResetGlobals()
	base, m := c18Build(c, r)
	start := "api-built"
	baseRaw, err := base.ToBytes()
	if err != nil {
		res.Inconcl = "base document does not serialise: " + err.Error()
		return res
	}
	if c.Case%2 == 1 && m.hdr != "" {
		// a base document as another producer would write it: header/footer placeholders split over runs at any position (also between
		// the two opening or the two closing braces), in one or both parts; the package is opened first
		p := opc.Read(baseRaw)
		repl := map[string][]byte{}
		phRe := regexp.MustCompile(`\{\{\w+\}\}`)
		for _, part := range []string{"word/header1.xml", "word/footer1.xml"} {
			hb := string(p.Parts[part])
			if hb == "" || !r.Chance(2, 3) {
				continue
			}
			locs := phRe.FindAllStringIndex(hb, -1)
			changed := false
			for i := len(locs) - 1; i >= 0; i-- { // back to front so that earlier offsets stay valid
				if !r.Chance(2, 3) {
					continue
				}
				cut := locs[i][0] + r.Range(1, locs[i][1]-locs[i][0]-1)
				hb = hb[:cut] + `</w:t></w:r><w:r><w:rPr><w:b/></w:rPr><w:t xml:space="preserve">` + hb[cut:]
				changed = true
				res.Count(fmt.Sprintf("header_footer_split_at_offset_%d", cut-locs[i][0]), 1)
			}
			if changed {
				repl[part] = []byte(hb)
			}
		}
		if len(repl) > 0 {
			if raw2, ok := rezip(baseRaw, repl); ok {
				if d2, err := document.OpenFromMemory(io.NopCloser(bytes.NewReader(raw2))); err == nil && d2 != nil && d2.Body != nil {
					base = d2
					start = "opened+split-header"
					m.hdrSplit = true
					baseRaw, _ = base.ToBytes()
				}
			}
		}
	}
	res.Count("start:"+start, 1)
	bv := viewDoc(baseRaw)
	if !bv.wellFormed {
		res.Inconcl = "base document is not well-formed (C01)"
		return res
	}
	eng := document.NewTemplateEngine()
	if _, err := eng.LoadTemplateFromDocument("t", base); err != nil {
		res.Count("load_errors", 1)
		return res
	}
	data := document.NewTemplateData()
	for k, v := range m.vars {
		data.SetVariable(k, v)
	}
	if m.loop {
		items := []interface{}{}
		for _, it := range m.items {
			items = append(items, it)
		}
		data.SetList("rows", items)
	}
	m.picAlt = map[string]string{}
	for _, n := range []string{"pic", "pic2", "pic3"} {
		b, ok := m.pics[n]
		if !ok {
			continue
		}
		if r.Chance(1, 3) {
			// a picture that comes with a description and a title of its own
			m.picAlt[n] = "described <" + n + ">"
			data.SetImageWithDetails(n, "", b, nil, "described <"+n+">", "title of <"+n+">")
		} else {
			data.SetImageFromData(n, b, nil)
		}
	}
	var out *document.Document
	if cg := core.Catch(func() { out, err = eng.RenderTemplateToDocument("t", data) }); cg != nil {
		res.Add("render/"+cg.Key(), "RenderTemplateToDocument panicked: "+cg.Msg, cg.Stack)
		return res
	}
	if err != nil || out == nil {
		res.Add("render/error", fmt.Sprintf("rendering a well-formed document template failed: %v", err))
		return res
	}
	outRaw, err := out.ToBytes()
	if err != nil {
		res.Add("render/result-does-not-serialise", err.Error())
		return res
	}
	ov := viewDoc(outRaw)
	note := fmt.Sprintf("start=%s vars=%v", start, m.vars)
	if !ov.wellFormed {
		res.Add("result/main-part-illformed", "the rendered document's main part is not well-formed", note)
		return res
	}
	res.Count("documents_rendered", 1)
	// 1. paragraphs: text and per-character formatting of literal characters, paragraph properties, breaks
	for _, p := range m.paras {
		bp := bv.byToken[p.token]
		op := ov.byToken[p.token]
		seg := "single-run-placeholders"
		if p.split {
			seg = "placeholder-split-across-runs"
		}
		if !strings.Contains(p.fullText(), "{{") {
			seg = "no-placeholder"
		}
		cls := p.loc + "/" + seg
		if bp == nil {
			continue // the base itself does not show the paragraph (reader loss on the opened variant): nothing to compare against
		}
		res.Count("paragraphs_compared", 1)
		if p.emptyRuns > 0 {
			res.Count("paragraphs_with_textless_runs_between_pieces", 1)
			if p.split {
				res.Count("paragraphs_with_textless_runs_and_split_placeholder", 1)
			}
		}
		if op == nil {
			res.Add(cls+"/paragraph-lost", fmt.Sprintf("paragraph %s of the base document is not in the rendered document", p.token), note, "base text: "+bp.text())
			continue
		}
		// expected characters
		bch := bp.chars()
		baseText := bp.text()
		var want []fch
		pos := 0 // rune index into bch
		rest := baseText
		phRe := regexp.MustCompile(`\{\{(\w+)\}\}`)
		for {
			loc := phRe.FindStringSubmatchIndex(rest)
			if loc == nil {
				n := utf8.RuneCountInString(rest)
				want = append(want, bch[pos:pos+n]...)
				break
			}
			nLit := utf8.RuneCountInString(rest[:loc[0]])
			want = append(want, bch[pos:pos+nLit]...)
			pos += nLit
			name := rest[loc[2]:loc[3]]
			nPh := utf8.RuneCountInString(rest[loc[0]:loc[1]])
			if v, ok := m.vars[name]; ok {
				for _, ch := range xmlCarried(v) {
					want = append(want, fch{ch, "*"})
				}
			} else {
				for _, ch := range rest[loc[0]:loc[1]] {
					want = append(want, fch{ch, "*"})
				}
			}
			pos += nPh
			rest = rest[loc[1]:]
		}
		got := op.chars()
		var ws, gs strings.Builder
		for _, x := range want {
			ws.WriteRune(x.r)
		}
		for _, x := range got {
			gs.WriteRune(x.r)
		}
		if ws.String() != gs.String() {
			kind := "text-differs"
			if strings.Contains(gs.String(), "{{") && !strings.Contains(ws.String(), "{{") {
				kind = "placeholder-not-replaced"
			}
			for name := range m.vars {
				_ = name
			}
			res.Add(cls+"/"+kind, fmt.Sprintf("paragraph %s: text %q, expected %q (base %q)", p.token, gs.String(), ws.String(), baseText), note)
			continue
		}
		for i := range want {
			if want[i].sig != "*" && want[i].sig != got[i].sig {
				res.Add(cls+"/literal-formatting-changed", fmt.Sprintf("paragraph %s: character %d (%q) had run formatting %q in the base document and has %q after rendering", p.token, i, string(want[i].r), oneLine(want[i].sig), oneLine(got[i].sig)), note)
				break
			}
		}
		res.Count("characters_compared", int64(len(want)))
		if bp.ppr != op.ppr {
			res.Add(cls+"/paragraph-properties-changed", fmt.Sprintf("paragraph %s: w:pPr %q became %q", p.token, oneLine(bp.ppr), oneLine(op.ppr)), note)
		}
		bb, ob := 0, 0
		for _, rr := range bp.runs {
			bb += rr.breaks
		}
		for _, rr := range op.runs {
			ob += rr.breaks
		}
		if bb != ob {
			res.Add(cls+"/break-run-lost", fmt.Sprintf("paragraph %s had %d w:br runs in the base document and has %d after rendering", p.token, bb, ob), note)
		}
	}
	// 2. body order and section settings
	wantKinds := append([]string{}, bv.bodyKinds...)
	gotKinds := ov.bodyKinds
	if m.image {
		// a picture may get a paragraph of its own and cut the text around its placeholder into further paragraphs: runs of
		// paragraphs count as one (their content is compared as a stream below)
		squeeze := func(in []string) []string {
			var out []string
			for _, k := range in {
				if k == "p" && len(out) > 0 && out[len(out)-1] == "p" {
					continue
				}
				out = append(out, k)
			}
			return out
		}
		wantKinds, gotKinds = squeeze(wantKinds), squeeze(gotKinds)
	}
	if fmt.Sprint(wantKinds) != fmt.Sprint(gotKinds) {
		res.Add("body/element-sequence-changed", fmt.Sprintf("body children %v became %v", bv.bodyKinds, ov.bodyKinds), note)
	}
	if bv.sectPr != ov.sectPr {
		res.Add("body/section-settings-changed", "w:sectPr differs after rendering", firstDiff(bv.sectPr, ov.sectPr), note)
	}
	// 3. the loop table
	if m.loop {
		var bt, ot [][]string
		for _, t := range bv.tables {
			if len(t) > 0 && len(t[0]) > 0 && strings.Contains(t[0][0], "⟦loophead⟧") {
				bt = t
			}
		}
		for _, t := range ov.tables {
			if len(t) > 0 && len(t[0]) > 0 && strings.Contains(t[0][0], "⟦loophead⟧") {
				ot = t
			}
		}
		if bt != nil {
			res.Count("loop_tables_compared", 1)
			var want [][]string
			plain := func(row []string) []string {
				out := make([]string, len(row))
				for i, txt := range row {
					out[i] = regexp.MustCompile(`\{\{(\w+)\}\}`).ReplaceAllStringFunc(txt, func(mm string) string {
						if v, ok := m.vars[mm[2:len(mm)-2]]; ok {
							return xmlCarried(v)
						}
						return mm
					})
				}
				return out
			}
			want = append(want, plain(bt[0]))
			subst := func(txt string, it map[string]interface{}) string {
				return regexp.MustCompile(`\{\{(\w+)\}\}`).ReplaceAllStringFunc(txt, func(mm string) string {
					if v, ok := it[mm[2:len(mm)-2]]; ok {
						return xmlCarried(fmt.Sprint(v))
					}
					return mm // a field the item does not have: the placeholder stays visible
				})
			}
			for _, it := range m.items {
				var row []string
				for cidx, txt := range m.loopCols {
					cell := subst(txt, it)
					if cidx == 1 && m.loopNested != nil {
						cell += "[[" + subst(m.loopNested[0], it) + "|" + subst(m.loopNested[1], it) + "]]"
					}
					row = append(row, cell)
				}
				want = append(want, row)
			}
			for _, row := range bt[2:] {
				want = append(want, plain(row))
			}
			cls := fmt.Sprintf("loop-table/items=%d/rows-after=%d", min2(len(m.items), 2), min2(len(bt)-2, 1))
			if m.loopNested != nil {
				cls += "/nested-table-in-loop-row"
			}
			switch {
			case ot == nil:
				res.Add(cls+"/table-lost", "the loop table is not in the rendered document", note)
			case len(ot) != len(want):
				res.Add(cls+"/row-count", fmt.Sprintf("loop table has %d rows, expected %d: %v vs %v", len(ot), len(want), ot, want), note)
			case fmt.Sprint(ot) != fmt.Sprint(want):
				res.Add(cls+"/row-content", fmt.Sprintf("loop table rows %v, expected %v", ot, want), note)
			}
		}
	}
	// 4. headers / footers
	for name, bt := range bv.hdrText {
		ot, ok := ov.hdrText[name]
		cls := "header-footer/single-run"
		if m.hdrSplit {
			cls = "header-footer/placeholder-split-across-runs"
		}
		if !ok {
			res.Add(cls+"/part-lost", name+" is missing in the rendered document", note)
			continue
		}
		if ot == "\x00ILLFORMED" {
			res.Add(cls+"/part-illformed", name+" is not well-formed after rendering", note)
			continue
		}
		want := regexp.MustCompile(`\{\{(\w+)\}\}`).ReplaceAllStringFunc(bt, func(mm string) string {
			if v, ok := m.vars[mm[2:len(mm)-2]]; ok {
				return xmlCarried(v)
			}
			return mm
		})
		res.Count("header_footer_parts_compared", 1)
		if ot != want {
			res.Add(cls+"/text-differs", fmt.Sprintf("%s: text %q, expected %q", name, ot, want), note)
		}
	}
	// 5. image placeholders: what a reader meets in the body paragraphs, in order - text and pictures - is the base document's
	// with every variable replaced by its value and every image placeholder by its picture (how the pieces are cut into
	// paragraphs and runs is free)
	if m.image {
		picName := func(b []byte) string {
			for n, pb := range m.pics {
				if b != nil && bytes.Equal(b, pb) {
					return n
				}
			}
			return "?"
		}
		bodyParas := func(v *vDoc) []*vPara {
			var out []*vPara
			for _, p := range v.paras {
				if p.loc == "body" {
					out = append(out, p)
				}
			}
			return out
		}
		var want []string
		addText := func(t string) {
			t = strings.Join(strings.Fields(t), "")
			if t == "" {
				return
			}
			if n := len(want); n > 0 && strings.HasPrefix(want[n-1], "T:") {
				want[n-1] += t
				return
			}
			want = append(want, "T:"+t)
		}
		dirRe := regexp.MustCompile(`\{\{#image (\w+)\}\}|\{\{(\w+)\}\}`)
		expect := func(paras []*vPara) {
			for _, bp := range paras {
				rest := bp.text()
				for {
					loc := dirRe.FindStringSubmatchIndex(rest)
					if loc == nil {
						addText(rest)
						break
					}
					addText(rest[:loc[0]])
					if loc[2] >= 0 {
						want = append(want, "P:"+rest[loc[2]:loc[3]])
					} else if v, ok := m.vars[rest[loc[4]:loc[5]]]; ok {
						addText(xmlCarried(v))
					} else {
						addText(rest[loc[0]:loc[1]])
					}
					rest = rest[loc[1]:]
				}
			}
		}
		expect(bodyParas(bv))
		got := ov.stream(bodyParas(ov), picName)
		res.Count("body_streams_compared(text+pictures)", 1)
		if strings.Join(want, " ") != strings.Join(got, " ") {
			kind := "text-or-order"
			switch {
			case strings.Contains(strings.Join(got, " "), "{{#image"):
				kind = "placeholder-left-in-text"
			case strings.Count(strings.Join(got, " "), "P:") != strings.Count(strings.Join(want, " "), "P:"):
				kind = "picture-count"
			}
			res.Add("image-placeholder/body/"+kind, fmt.Sprintf("the body reads %v, expected %v", got, want), note)
		}
		// a picture carries the description it was given, and never the one given with another picture
		for _, p := range ov.paras {
			for _, rr := range p.runs {
				for i, id := range rr.embeds {
					n := picName(ov.parts[ov.relTarget[id]])
					if n == "?" || i >= len(rr.descrs) {
						continue
					}
					res.Count("picture_descriptions_checked", 1)
					own := m.picAlt[n]
					if own != "" && !strings.HasPrefix(rr.descrs[i], own+"|") {
						res.Add("image-placeholder/description/own-description-missing", fmt.Sprintf("picture %s was given the description %q and shows %q", n, own, rr.descrs[i]), note)
					}
					for other, alt := range m.picAlt {
						if other != n && alt != "" && strings.Contains(rr.descrs[i], alt) {
							res.Add("image-placeholder/description/description-of-another-picture", fmt.Sprintf("picture %s shows the description given with picture %s: %q", n, other, rr.descrs[i]), note)
						}
					}
				}
			}
		}
		if m.imgCell {
			var bc, oc []*vPara
			rowOf := func(v *vDoc) string {
				if p := v.byToken["⟦imgtbl⟧"]; p != nil {
					return p.row[:strings.LastIndex(p.row, "/")]
				}
				return "\x00"
			}
			br, or := rowOf(bv), rowOf(ov)
			for _, p := range bv.paras {
				if strings.HasPrefix(p.row, br+"/") {
					bc = append(bc, p)
				}
			}
			for _, p := range ov.paras {
				if strings.HasPrefix(p.row, or+"/") {
					oc = append(oc, p)
				}
			}
			want = nil
			expect(bc)
			got := ov.stream(oc, picName)
			res.Count("cell_streams_compared(text+pictures)", 1)
			if strings.Join(want, " ") != strings.Join(got, " ") {
				res.Add("image-placeholder/cell/not-replaced-by-picture", fmt.Sprintf("the table row reads %v, expected %v", got, want), note)
			}
		}
	}
	// 6. parts the render has no business touching
	for name, b := range bv.parts {
		if name == "word/document.xml" || strings.HasPrefix(name, "word/header") || strings.HasPrefix(name, "word/footer") || strings.HasSuffix(name, ".rels") || name == "[Content_Types].xml" || strings.HasPrefix(name, "docProps/") {
			continue
		}
		ob, ok := ov.parts[name]
		if !ok {
			res.Add("parts/extra-part-lost", "part "+opc.Class(name)+" of the base document is missing in the rendered document", note)
		} else if !bytes.Equal(b, ob) && !(opc.IsXMLName(name) && canon.EqualXML(b, ob, nil)) {
			res.Add("parts/extra-part-changed/"+opc.Class(name), "part "+name+" differs after rendering", note)
		}
	}
	res.Nontrivial = res.Stats["paragraphs_compared"] >= 2
	var sig []string
	for _, p := range m.paras {
		sig = append(sig, p.fullText())
	}
	res.Sig = start + "|" + strings.Join(sig, "|") + fmt.Sprint(m.vars)
	res.Sample = map[string]interface{}{"case": c.Case, "start": start, "paragraphs": tail(sig, 5), "vars": m.vars, "loop_items": len(m.items)}
	return res
}

func oneLine(s string) string { return strings.Join(strings.Fields(s), " ") }

// rezip rewrites some entries of a package.
func rezip(raw []byte, repl map[string][]byte) ([]byte, bool) {
	p := opc.Read(raw)
	if len(p.ZipProbs) > 0 {
		return nil, false
	}
	f := &gen.Foreign{Parts: map[string][]byte{}}
	for n, b := range p.Parts {
		f.Parts[n] = b
	}
	for n, b := range repl {
		f.Parts[n] = b
	}
	for n := range f.Parts {
		f.Order = append(f.Order, n)
	}
	sort.Slice(f.Order, func(i, j int) bool {
		if (f.Order[i] == "[Content_Types].xml") != (f.Order[j] == "[Content_Types].xml") {
			return f.Order[i] == "[Content_Types].xml"
		}
		return f.Order[i] < f.Order[j]
	})
	return f.Bytes(rng.New(1)), true
}

func init() {
	core.Register(&core.Check{
		ID:    "C18",
		Level: "exploration",
		Rule: "base documents built through the API: body paragraphs, table cells and nested-table cells whose text (unique token + literals incl. single braces and CJK + 0-3 placeholders) is cut into 1-4 runs of differing formatting, two thirds of the multi-run paragraphs with a run boundary forced inside a placeholder, one boundary in five holding an additional run without text (formatting only; a zero-length piece, also inside a placeholder); paragraph properties, page-break runs, text runs that carry a break themselves, a loop table (header row, {{#each}} row, 0-2 fixed rows, 0-3 items; ordinary placeholders in the header and fixed rows; item values that look like another field's placeholder), image placeholders (three names with a picture each; alone in a paragraph or with text before/after, two in one paragraph, several paragraphs in a row, in a table cell directly behind and in a table nested in that cell), header and footer with one or two placeholders each (every second case with a header: the package is rewritten so that header and/or footer placeholders are split over two runs at a random offset, also between the two opening braces, then opened), page settings; data for about two thirds of the names incl. XML metacharacters, empty and directive-like values. " +
			"Oracle on the saved rendered document, read independently and compared with the saved base document: per paragraph the text after reference substitution, the run formatting of every literal character (value characters are free), w:pPr, w:br count; body child sequence, w:sectPr, loop table rows, header/footer text, the stream of text and pictures (identified by their bytes) a reader meets in the body paragraphs and in the picture row equals the base document's with placeholders replaced, untouched parts byte/canonically equal. Non-trivial: >=2 paragraphs compared; distinct = paragraph texts + data.",
		Cases:         func(t string) int { return tierN(t, 8000, 120000) },
		Run:           c18Case,
		Assume:        []string{"conditionals and paragraph-level loops inside document templates are not generated (the statement names placeholders, table loops and image placeholders)", "formatting of the inserted value and the resulting run segmentation are free"},
		CaseTimeoutS:  60,
		MinNontrivial: 300,
	})
}
