package props

import (
	"bytes"
	"fmt"
	"io"
	"strings"

	"github.com/zerx-lab/wordZero/pkg/document"

	"verifharness/internal/core"
	"verifharness/internal/gen"
	"verifharness/internal/opc"
)

// hfDef is the reference record of the most recent call for one (header|footer, kind).
type hfDef struct {
	token   string // unique per call, part of the text ("" when the call passed an empty text)
	text    string
	pageNum bool
	format  *document.TextFormat
	align   document.AlignmentType
	call    string
}

func hfKey(footer bool, kind document.HeaderFooterType) string {
	if footer {
		return "footer/" + string(kind)
	}
	return "header/" + string(kind)
}

// c11Check parses a saved package and compares it with the model.
func c11Check(res *core.Result, b []byte, model map[string]*hfDef, allTokens map[string]bool, stage string, note string) {
	fail := func(key, format string, a ...interface{}) {
		res.Add(stage+"/"+key, fmt.Sprintf(format, a...), note)
	}
	p := opc.Read(b)
	root, pr := p.Tree("word/document.xml")
	if root == nil || len(pr) > 0 {
		res.Count("main_part_unreadable(C01)", 1)
		return
	}
	body := root.Child(opc.NsW, "body")
	if body == nil {
		return
	}
	var sect *opc.Node
	for _, k := range body.Children {
		if k.Is(opc.NsW, "sectPr") {
			sect = k
		}
	}
	res.Count("packages_checked", 1)
	rels, _ := p.Rels("word/_rels/document.xml.rels")
	relByID := map[string]opc.Rel{}
	for _, r := range rels {
		relByID[r.ID] = r
	}
	for _, hf := range []string{"header", "footer"} {
		byKind := map[string][]*opc.Node{}
		if sect != nil {
			for _, ref := range sect.ChildrenOf(opc.NsW, hf+"Reference") {
				byKind[ref.AttrW("type")] = append(byKind[ref.AttrW("type")], ref)
			}
		}
		for _, kind := range []string{"default", "first", "even"} {
			refs := byKind[kind]
			def := model[hf+"/"+kind]
			res.Count("kinds_compared", 1)
			if len(refs) > 1 {
				fail("duplicate-reference/"+hf, "w:sectPr has %d %sReference elements of kind %s", len(refs), hf, kind)
			}
			if def == nil {
				if len(refs) > 0 {
					fail("unexpected-reference/"+hf, "no %s of kind %s was ever added but w:sectPr refers to one", hf, kind)
				}
				continue
			}
			if len(refs) == 0 {
				fail("missing-reference/"+hf, "%s of kind %s (%s) has no reference in w:sectPr", hf, kind, def.call)
				continue
			}
			// every reference of the kind must show the latest definition (with duplicates the consumer may pick any)
			for _, ref := range refs {
				id, _ := ref.Attr(opc.NsR, "id")
				rel, ok := relByID[id]
				if !ok || rel.ShortType() != hf || rel.External() {
					fail("unresolved-reference/"+hf, "%sReference kind %s id %q does not resolve to a %s relationship of the main part", hf, kind, id, hf)
					continue
				}
				part := opc.ResolveTarget("word/document.xml", rel.Target)
				proot, ppr := p.Tree(part)
				if proot == nil || len(ppr) > 0 {
					fail("part-missing-or-illformed/"+hf, "%s part %s (kind %s) is missing or not well-formed", hf, part, kind)
					continue
				}
				wantRoot := "hdr"
				if hf == "footer" {
					wantRoot = "ftr"
				}
				if !proot.Is(opc.NsW, wantRoot) {
					fail("wrong-part-root/"+hf, "%s part %s has root %s", hf, part, proot.Local)
				}
				var text strings.Builder
				var tokenRun *opc.Node
				for _, run := range proot.Find(opc.NsW, "r") {
					for _, t := range run.ChildrenOf(opc.NsW, "t") {
						text.WriteString(t.ShownText())
						if def.token != "" && strings.Contains(t.Text, def.token) {
							tokenRun = run
						}
					}
				}
				full := text.String()
				res.Count("definitions_resolved", 1)
				for tk := range allTokens {
					if tk != def.token && strings.Contains(full, tk) {
						fail("earlier-definition-visible/"+hf, "%s kind %s shows the text of another call (%s) instead of the latest (%s): %q", hf, kind, tk, def.call, full)
					}
				}
				if def.token != "" && !strings.Contains(full, def.token) {
					fail("latest-definition-not-shown/"+hf, "%s kind %s does not show the text of the latest call %s: %q", hf, kind, def.call, full)
					continue
				}
				if !strings.HasPrefix(full, def.text) {
					fail("text-differs/"+hf, "%s kind %s: text %q, expected it to start with %q", hf, kind, full, def.text)
				}
				if !def.pageNum && full != def.text {
					fail("text-differs/"+hf, "%s kind %s: text %q, expected exactly %q", hf, kind, full, def.text)
				}
				hasPage := false
				for _, it := range proot.Find(opc.NsW, "instrText") {
					if strings.Contains(strings.ToUpper(it.Text), "PAGE") {
						hasPage = true
					}
				}
				for _, fs := range proot.Find(opc.NsW, "fldSimple") {
					if strings.Contains(strings.ToUpper(fs.AttrW("instr")), "PAGE") {
						hasPage = true
					}
				}
				if hasPage != def.pageNum {
					fail("page-field/"+hf, "%s kind %s: PAGE field present=%v, requested=%v (%s)", hf, kind, hasPage, def.pageNum, def.call)
				}
				if def.align != "" {
					got := ""
					for _, jc := range proot.Find(opc.NsW, "jc") {
						got = jc.AttrW("val")
					}
					if got != string(def.align) {
						fail("alignment/"+hf, "%s kind %s: w:jc %q, requested %q", hf, kind, got, def.align)
					}
				}
				if def.format != nil && tokenRun != nil {
					rp := tokenRun.Child(opc.NsW, "rPr")
					has := func(n string) bool { return rp != nil && rp.Child(opc.NsW, n) != nil }
					val := func(n, a string) string {
						if rp == nil || rp.Child(opc.NsW, n) == nil {
							return ""
						}
						return rp.Child(opc.NsW, n).AttrW(a)
					}
					f := def.format
					chk := func(name string, ok bool) {
						res.Count("format_attributes_compared", 1)
						if !ok {
							fail("format/"+name, "%s kind %s: run formatting %s does not match the request %+v", hf, kind, name, *f)
						}
					}
					chk("bold", has("b") == f.Bold)
					chk("italic", has("i") == f.Italic)
					chk("strike", has("strike") == f.Strike)
					chk("underline", has("u") == f.Underline)
					if f.FontColor != "" {
						chk("color", strings.EqualFold(val("color", "val"), strings.TrimPrefix(f.FontColor, "#")))
					}
					if f.FontSize > 0 {
						chk("size", val("sz", "val") == fmt.Sprint(f.FontSize*2))
					}
					fn := f.FontFamily
					if fn == "" {
						fn = f.FontName
					}
					if fn != "" {
						chk("font", val("rFonts", "ascii") == fn)
					}
					if f.Highlight != "" {
						chk("highlight", val("highlight", "val") == f.Highlight)
					}
				}
			}
		}
	}
}

func c11Case(c *core.Ctx) *core.Result {
	res := &core.Result{}
	r := caseRng(c)
	document.VerifResetGlobals()
	d := document.New()
	d.AddParagraph("body")
	model := map[string]*hfDef{}
	tokens := map[string]bool{}
	// documents that stay alive beside the current one (a template base and its renders): each keeps its own model
	type liveDoc struct {
		d     *document.Document
		model map[string]*hfDef
	}
	var others []*liveDoc
	copyModel := func(m map[string]*hfDef) map[string]*hfDef {
		c := map[string]*hfDef{}
		for k, v := range m {
			c[k] = v
		}
		return c
	}
	kinds := []document.HeaderFooterType{document.HeaderFooterTypeDefault, document.HeaderFooterTypeFirst, document.HeaderFooterTypeEven}
	aligns := []document.AlignmentType{document.AlignLeft, document.AlignCenter, document.AlignRight, document.AlignJustify, ""}
	var log []string
	serial := 0
	n := r.Range(3, tierN(c.Tier, 24, 60))
	hfCalls, cycles := 0, 0
	side := []int{0, 0, 0, 1, 1, 2}[r.Intn(6)]
	loopOpen := false
	repeats := 0
	for i := 0; i < n && len(res.Findings) == 0; i++ {
		if len(others) > 0 && r.Chance(1, 3) {
			// continue on one of the other live documents
			j := r.Intn(len(others))
			others[j].d, d = d, others[j].d
			others[j].model, model = model, others[j].model
			log = append(log, "switch-document")
		}
		k := r.Intn(100)
		switch {
		case k < 55: // header/footer call
			kind := kinds[r.Intn(3)]
			footer := r.Bool()
			switch side {
			case 1:
				footer = true // a document that only ever gets footers
			case 2:
				footer = false
			}
			serial++
			tok := fmt.Sprintf("⟦h%d-%d⟧", c.Case, serial)
			text := tok + gen.SafeString(r)
			switch r.Intn(14) {
			case 0:
				tok, text = "", ""
			case 1:
				// a blank definition (the usual way to blank the first-page header so that it does not fall back to the running one)
				tok, text = "", []string{" ", "  ", "   ", "\t", " \t "}[r.Intn(5)]
			case 2:
				// blanks at the edges of the text
				text = []string{" ", "  ", ""}[r.Intn(3)] + text + []string{" ", "  ", "\t"}[r.Intn(3)]
			}
			def := &hfDef{token: tok, text: text}
			var err error
			variant := r.Intn(3)
			cg := core.Catch(func() {
				switch variant {
				case 0:
					if footer {
						def.call = "AddFooter"
						err = d.AddFooter(kind, text)
					} else {
						def.call = "AddHeader"
						err = d.AddHeader(kind, text)
					}
				case 1:
					def.pageNum = r.Bool()
					if footer {
						def.call = fmt.Sprintf("AddFooterWithPageNumber(%v)", def.pageNum)
						err = d.AddFooterWithPageNumber(kind, text, def.pageNum)
					} else {
						def.call = fmt.Sprintf("AddHeaderWithPageNumber(%v)", def.pageNum)
						err = d.AddHeaderWithPageNumber(kind, text, def.pageNum)
					}
				case 2:
					cfg := &document.HeaderFooterConfig{Text: text, Alignment: aligns[r.Intn(len(aligns))]}
					if r.Chance(4, 5) {
						cfg.Format = &document.TextFormat{Bold: r.Bool(), Italic: r.Bool(), Underline: r.Bool(), Strike: r.Bool(), FontSize: []int{0, 9, 12, 28}[r.Intn(4)],
							FontColor: []string{"", "FF0000", "#00AA11", "8e8e8e"}[r.Intn(4)], FontFamily: []string{"", "Arial", "宋体"}[r.Intn(3)], Highlight: []string{"", "yellow"}[r.Intn(2)]}
						if cfg.Format.FontFamily == "" && r.Bool() {
							cfg.Format.FontName = "Courier New"
						}
					}
					def.format, def.align = cfg.Format, cfg.Alignment
					if footer {
						def.call = "AddFormattedFooter"
						err = d.AddFormattedFooter(kind, cfg)
					} else {
						def.call = "AddFormattedHeader"
						err = d.AddFormattedHeader(kind, cfg)
					}
				}
			})
			key := hfKey(footer, kind)
			def.call += "(" + string(kind) + ")#" + fmt.Sprint(serial)
			log = append(log, def.call)
			if cg != nil {
				res.Add("call/"+cg.Key(), def.call+" panicked: "+cg.Msg, cg.Stack)
				break
			}
			if err != nil {
				res.Count("calls_returning_error", 1)
				break
			}
			if model[key] != nil {
				repeats++
			}
			model[key] = def
			if tok != "" {
				tokens[tok] = true
			}
			hfCalls++
		case k < 62:
			log = append(log, "SetDifferentFirstPage")
			core.Catch(func() { d.SetDifferentFirstPage(r.Bool()) })
		case k < 72: // page settings (create / modify the section element)
			log = append(log, "PageSetting")
			core.Catch(func() {
				switch r.Intn(7) {
				case 4:
					// only looking at the settings, or asking for something that is refused: the section settings may come into
					// being through these calls, with nothing in them yet
					d.GetPageSettings()
				case 5:
					d.SetCustomPageSize(5, 5)
				case 6:
					d.SetPageMargins(-1, -1, -1, -1)
				case 0:
					d.SetPageMargins(20, 21, 22, 23)
				case 1:
					d.SetPageOrientation([]document.PageOrientation{document.OrientationLandscape, document.OrientationPortrait}[r.Intn(2)])
				case 2:
					d.SetPageSize(document.PageSizeA5)
				case 3:
					d.SetGutterWidth(3)
				}
			})
		case k < 82: // other content, other relationship-creating calls
			log = append(log, "Content")
			core.Catch(func() {
				switch r.Intn(5) {
				case 4:
					// the opening or closing paragraph of a document-level loop: whatever header/footer or page-setting call comes between
					// the two creates its section settings inside the loop's range
					if loopOpen = !loopOpen; loopOpen {
						d.AddParagraph("{{#each rows}}")
						d.AddParagraph("row {{v}}")
					} else {
						d.AddParagraph("{{/each}}")
					}
				case 0:
					d.AddParagraph("more body " + gen.Word(r, 1, 5))
				case 1:
					serial++
					im := gen.RandomImage(r, 3000+serial)
					d.AddImageFromData(im.Data, "pic."+im.Format, imgFormat(im.Format), im.W, im.H, nil)
				case 2:
					d.AddBulletList("item", 0, document.BulletTypeDot)
				case 3:
					d.AddTable(&document.TableConfig{Rows: 2, Cols: 2, Width: 5000})
				}
			})
		case k < 92: // save / open cycle
			b, err := d.ToBytes()
			if err != nil {
				break
			}
			c11Check(res, b, model, tokens, "saved", "calls: "+strings.Join(tail(log, 14), " "))
			d2, oerr := document.OpenFromMemory(io.NopCloser(bytes.NewReader(b)))
			if oerr != nil || d2 == nil || d2.Body == nil {
				res.Add("reopen/open-failed", fmt.Sprintf("own output cannot be reopened: %v", oerr))
				break
			}
			d = d2
			cycles++
			log = append(log, "save+open")
		default: // use the document as a template
			eng := document.NewTemplateEngine()
			var d2 *document.Document
			var err error
			cg := core.Catch(func() {
				if _, err = eng.LoadTemplateFromDocument("t", d); err != nil {
					return
				}
				data := document.NewTemplateData()
				data.SetVariable("x", "value")
				switch r.Intn(4) { // the list of the document-level loop: two items, one, none, not supplied at all
				case 0:
					data.SetList("rows", []interface{}{})
				case 1:
				case 2:
					data.SetList("rows", []interface{}{map[string]interface{}{"v": "1"}})
				default:
					data.SetList("rows", []interface{}{map[string]interface{}{"v": "1"}, map[string]interface{}{"v": "2"}})
				}
				if r.Bool() {
					d2, err = eng.RenderTemplateToDocument("t", data)
				} else {
					d2, err = eng.RenderToDocument("t", data)
				}
			})
			if cg != nil || err != nil || d2 == nil || d2.Body == nil {
				res.Count("render_failures", 1)
				break
			}
			if len(others) < 3 && r.Bool() {
				// the base stays in use beside its render
				others = append(others, &liveDoc{d: d, model: copyModel(model)})
				log = append(log, "render-as-template(base kept)")
			} else {
				log = append(log, "render-as-template")
			}
			d = d2
			cycles++
		}
	}
	if len(res.Findings) == 0 {
		if b, err := d.ToBytes(); err == nil {
			c11Check(res, b, model, tokens, "saved", "calls: "+strings.Join(tail(log, 14), " "))
		}
		for _, o := range others {
			if b, err := o.d.ToBytes(); err == nil {
				c11Check(res, b, o.model, tokens, "saved-sibling", "calls: "+strings.Join(tail(log, 20), " "))
				res.Count("sibling_documents_checked", 1)
			}
		}
	}
	res.Count("header_footer_calls", int64(hfCalls))
	res.Count("repeat_calls_for_a_kind", int64(repeats))
	res.Count("save_open_or_render_cycles", int64(cycles))
	res.Nontrivial = hfCalls >= 2 && res.Stats["definitions_resolved"] > 0
	res.Sig = strings.Join(log, ";")
	res.Sample = map[string]interface{}{"case": c.Case, "calls": tail(log, 16)}
	return res
}

func init() {
	core.Register(&core.Check{
		ID:    "C11",
		Level: "exploration",
		Rule: "sequences of AddHeader/AddFooter/Add*WithPageNumber/AddFormatted* over default/first/even with repeats (every call's text carries a unique token; some calls pass an empty text), SetDifferentFirstPage, page-setting calls, paragraphs/images/lists/tables, save+open cycles and use as a document template (both render entry points; the base document may stay alive beside its renders, each with its own model, and all are extended alternately); " +
			"at every save the independent reader checks: at most one header and one footer reference per kind in w:sectPr, none for kinds never defined, each resolves through the main part's relationships to a w:hdr/w:ftr part that shows the token, text, PAGE field, alignment and run formatting of the LATEST call for that kind and no token of any other call. " +
			"Non-trivial: >=2 successful header/footer calls and >=1 definition resolved; distinct = call sequence.",
		Cases:         func(t string) int { return tierN(t, 12000, 400000) },
		Run:           c11Case,
		Assume:        []string{"part names, unreferenced left-over parts/relationships of superseded definitions and namespace boilerplate are not constrained", "the texts contain no template syntax, so rendering must leave them unchanged"},
		CaseTimeoutS:  60,
		MinNontrivial: 300,
	})
}
