package props

import (
	"bytes"
	"fmt"
	"io"
	"math"
	"strconv"
	"strings"

	"github.com/zerx-lab/wordZero/pkg/document"

	"verifharness/internal/core"
	"verifharness/internal/gen"
	"verifharness/internal/opc"
	"verifharness/internal/rng"
)

var stdSizes = map[document.PageSize][2]float64{
	document.PageSizeA4: {210, 297}, document.PageSizeLetter: {215.9, 279.4}, document.PageSizeLegal: {215.9, 355.6}, document.PageSizeA3: {297, 420}, document.PageSizeA5: {148, 210},
}
var stdNames = []document.PageSize{document.PageSizeA4, document.PageSizeLetter, document.PageSizeLegal, document.PageSizeA3, document.PageSizeA5}

// pageRec is the reference record: per attribute the value of the most recent call naming it.
type pageRec struct {
	Size                   document.PageSize // predefined name or Custom
	W, H                   float64           // logical (portrait-order) dimensions in mm
	Orient                 document.PageOrientation
	MT, MR, MB, ML         float64
	Header, Footer, Gutter float64
	GridType               document.DocGridType
	GridPitch, GridChar    int
	GridCleared            bool // no grid written (cleared, or settings were written without naming a grid)
	Fresh                  bool // nothing has been written yet: the accessor reports the defaults
}

func defaultRec() pageRec {
	return pageRec{Size: document.PageSizeA4, W: 210, H: 297, Orient: document.OrientationPortrait, MT: 25.4, MR: 25.4, MB: 25.4, ML: 25.4, Header: 12.7, Footer: 12.7,
		GridType: document.DocGridLines, GridPitch: 312, Fresh: true}
}

// nearStd reports the standard size whose dimensions are within 1 mm of (w,h) in this order.
func nearStd(w, h float64) (document.PageSize, bool) { return nearStdWithin(w, h, 1) }

// nearStdWithin: the same with another tolerance. A size is stored in twips; one that is outside the 1 mm tolerance by
// less than the rounding of that unit may lie inside it once stored, so the implementation may report the standard size
// up to 1 mm + half a twip.
func nearStdWithin(w, h, tol float64) (document.PageSize, bool) {
	for _, n := range stdNames {
		d := stdSizes[n]
		if math.Abs(w-d[0]) < tol && math.Abs(h-d[1]) < tol {
			return n, true
		}
	}
	return "", false
}

const lenTol = 0.0089 // half a twip in mm (+ slack)

func closeTo(a, b, tol float64) bool { return math.Abs(a-b) <= tol+1e-9 }

// comparePage checks a GetPageSettings result against the record; returns key suffix + text of the first mismatch.
func (rec pageRec) compare(g *document.PageSettings) (string, string) {
	if g == nil {
		return "nil-settings", "GetPageSettings returned nil"
	}
	if g.Orientation != rec.Orient {
		return "orientation", fmt.Sprintf("orientation %q, expected %q", g.Orientation, rec.Orient)
	}
	std, isNear := nearStd(rec.W, rec.H)
	switch {
	case rec.Size != document.PageSizeCustom:
		if g.Size != rec.Size {
			return "size-name", fmt.Sprintf("size %q, expected %q", g.Size, rec.Size)
		}
	case g.Size == document.PageSizeCustom:
		if !closeTo(g.CustomWidth, rec.W, lenTol) || !closeTo(g.CustomHeight, rec.H, lenTol) {
			what := "custom-dimensions"
			if closeTo(g.CustomWidth, rec.H, lenTol) && closeTo(g.CustomHeight, rec.W, lenTol) && rec.W != rec.H {
				what = "custom-dimensions-swapped"
			}
			return what, fmt.Sprintf("custom size %.4fx%.4f, expected %.4fx%.4f", g.CustomWidth, g.CustomHeight, rec.W, rec.H)
		}
	default: // implementation reports a standard size for a custom request: allowed only within the 1 mm tolerance
		if !isNear {
			std, isNear = nearStdWithin(rec.W, rec.H, 1+lenTol) // ... up to the rounding of the storage unit
		}
		if !isNear || g.Size != std {
			return "custom-reported-as-standard", fmt.Sprintf("custom size %.4fx%.4f is reported as %q", rec.W, rec.H, g.Size)
		}
	}
	type pair struct {
		n    string
		g, w float64
	}
	for _, p := range []pair{{"margin-top", g.MarginTop, rec.MT}, {"margin-right", g.MarginRight, rec.MR}, {"margin-bottom", g.MarginBottom, rec.MB}, {"margin-left", g.MarginLeft, rec.ML},
		{"header-distance", g.HeaderDistance, rec.Header}, {"footer-distance", g.FooterDistance, rec.Footer}, {"gutter", g.GutterWidth, rec.Gutter}} {
		if !closeTo(p.g, p.w, lenTol) {
			return p.n, fmt.Sprintf("%s %.5f, expected %.5f", p.n, p.g, p.w)
		}
	}
	if !rec.GridCleared {
		if g.DocGridType != rec.GridType {
			return "grid-type", fmt.Sprintf("grid type %q, expected %q", g.DocGridType, rec.GridType)
		}
		if g.DocGridLinePitch != rec.GridPitch {
			return "grid-line-pitch", fmt.Sprintf("grid line pitch %d, expected %d", g.DocGridLinePitch, rec.GridPitch)
		}
		if g.DocGridCharSpace != rec.GridChar {
			return "grid-char-space", fmt.Sprintf("grid char space %d, expected %d", g.DocGridCharSpace, rec.GridChar)
		}
	}
	return "", ""
}

func atof(s string) float64 { f, _ := strconv.ParseFloat(s, 64); return f }

// compareSaved checks w:pgSz / w:pgMar / w:docGrid of the saved main part.
func (rec pageRec) compareSaved(b []byte, anySetter bool) (string, string) {
	p := opc.Read(b)
	root, pr := p.Tree("word/document.xml")
	if root == nil || len(pr) > 0 {
		return "", ""
	}
	body := root.Child(opc.NsW, "body")
	if body == nil {
		return "", ""
	}
	sect := body.Child(opc.NsW, "sectPr")
	if sect == nil {
		if anySetter {
			return "saved-no-sectPr", "settings were made but the saved main part has no w:sectPr"
		}
		return "", ""
	}
	const tw = 56.692913385827
	if sz := sect.Child(opc.NsW, "pgSz"); sz != nil {
		w, h := atof(sz.AttrW("w"))/tw, atof(sz.AttrW("h"))/tw
		ew, eh := rec.W, rec.H
		if rec.Orient == document.OrientationLandscape {
			ew, eh = eh, ew
		}
		tol := lenTol
		if _, near := nearStdWithin(rec.W, rec.H, 1+lenTol); near && rec.Size == document.PageSizeCustom {
			tol = 1.0 + lenTol
		}
		if !closeTo(w, ew, tol) || !closeTo(h, eh, tol) {
			what := "saved-page-dimensions"
			if closeTo(w, eh, tol) && closeTo(h, ew, tol) {
				what = "saved-page-dimensions-swapped"
			}
			return what, fmt.Sprintf("saved w:pgSz is %.3fx%.3f mm, expected physical %.3fx%.3f (orientation %s)", w, h, ew, eh, rec.Orient)
		}
		if o := sz.AttrW("orient"); o != string(rec.Orient) && !(o == "" && rec.Orient == document.OrientationPortrait) {
			return "saved-orient", fmt.Sprintf("saved w:orient=%q, expected %q", o, rec.Orient)
		}
	} else if anySetter {
		return "saved-no-pgSz", "saved w:sectPr has no w:pgSz"
	}
	if m := sect.Child(opc.NsW, "pgMar"); m != nil {
		for _, a := range []struct {
			n string
			w float64
		}{{"top", rec.MT}, {"right", rec.MR}, {"bottom", rec.MB}, {"left", rec.ML}, {"header", rec.Header}, {"footer", rec.Footer}, {"gutter", rec.Gutter}} {
			if !closeTo(atof(m.AttrW(a.n))/tw, a.w, lenTol) {
				return "saved-pgMar-" + a.n, fmt.Sprintf("saved w:pgMar %s=%s (%.4f mm), expected %.4f", a.n, m.AttrW(a.n), atof(m.AttrW(a.n))/tw, a.w)
			}
		}
	}
	g := sect.Child(opc.NsW, "docGrid")
	if rec.GridCleared {
		if g != nil {
			return "saved-docGrid-after-clear", "ClearDocGrid was the last call naming the grid but the saved w:sectPr has a w:docGrid"
		}
	} else if g != nil {
		if g.AttrW("type") != string(rec.GridType) || int(atof(g.AttrW("linePitch"))) != rec.GridPitch {
			return "saved-docGrid", fmt.Sprintf("saved w:docGrid type=%q linePitch=%q, expected %q/%d", g.AttrW("type"), g.AttrW("linePitch"), rec.GridType, rec.GridPitch)
		}
	}
	return "", ""
}

func c12Len(r *rng.R) float64 {
	switch r.Intn(8) {
	case 0:
		return 0
	case 1:
		return -float64(r.Range(1, 20))
	case 2:
		return float64(r.Range(1, 100)) + r.Float()
	case 3:
		return 12.7
	default:
		return float64(r.Range(0, 60)) + float64(r.Intn(100))/100
	}
}

func c12Dim(r *rng.R) float64 {
	const lo, hi = 12.7, 558.8
	switch r.Intn(14) {
	case 12:
		// less than half a twip outside the range: within the unit rounding of the bound (the library decides, see the caller)
		// ... and just beyond that (outside the range by more than the rounding of the unit: invalid)
		return lo - []float64{0.001, 0.004, 0.008, 0.0095, 0.012}[r.Intn(5)]
	case 13:
		return hi + []float64{0.001, 0.004, 0.008, 0.0095, 0.012}[r.Intn(5)]
	case 0:
		return lo
	case 1:
		return hi
	case 2:
		return lo - 0.05
	case 3:
		return hi + 0.05
	case 4:
		return 0
	case 5:
		return -10
	case 6: // within the recognition tolerance of a standard dimension
		d := stdSizes[stdNames[r.Intn(5)]]
		return d[r.Intn(2)] + (r.Float()*1.98 - 0.99)
	case 7:
		d := stdSizes[stdNames[r.Intn(5)]]
		return d[r.Intn(2)]
	default: // log-uniform over the valid range
		return lo * math.Pow(hi/lo, r.Float())
	}
}

func c12Case(c *core.Ctx) *core.Result {
	res := &core.Result{}
	r := caseRng(c)
	document.VerifResetGlobals()
	d := document.New()
	d.AddParagraph("page settings")
	rec := defaultRec()
	var log []string
	if c.Case%10 == 9 {
		// a document of another producer with two sections: the first ends in a paragraph that carries its own w:sectPr (Letter,
		// wide margins), the settings of the document's last section are the body-level w:sectPr (A4, 25.4 mm margins) - those are
		// what the page-setting calls are about and what is written back as the body-level element
		pkg := gen.MinimalPackage(func(m map[string]string) {
			first := `<w:p><w:pPr><w:sectPr><w:pgSz w:w="12240" w:h="15840"/><w:pgMar w:top="2000" w:right="2000" w:bottom="2000" w:left="2000" w:header="400" w:footer="400" w:gutter="0"/></w:sectPr></w:pPr><w:r><w:t>end of section one</w:t></w:r></w:p>`
			last := `<w:sectPr><w:pgSz w:w="11906" w:h="16838"/><w:pgMar w:top="1440" w:right="1440" w:bottom="1440" w:left="1440" w:header="720" w:footer="720" w:gutter="0"/><w:docGrid w:type="lines" w:linePitch="312"/></w:sectPr>`
			m["word/document.xml"] = strings.Replace(m["word/document.xml"], "<w:body>", "<w:body>"+first, 1)
			m["word/document.xml"] = strings.Replace(m["word/document.xml"], "</w:body>", last+"</w:body>", 1)
		})
		if od, err := document.OpenFromMemory(io.NopCloser(bytes.NewReader(pkg))); err == nil && od != nil && od.Body != nil {
			d = od
			rec.Fresh = false
			log = append(log, "opened-two-sections")
			res.Count("start:opened-document-with-two-sections", 1)
		}
	}
	kinds := map[string]bool{}
	anySetter := false
	_ = anySetter
	n := r.Range(3, tierN(c.Tier, 25, 60))
	okCalls := 0
	hfTypes12 := []document.HeaderFooterType{document.HeaderFooterTypeDefault, document.HeaderFooterTypeFirst, document.HeaderFooterTypeEven}
	for i := 0; i < n && len(res.Findings) == 0; i++ {
		// calls that name no page attribute (content, headers/footers) must leave every attribute as it was
		if r.Chance(1, 4) {
			var nop string
			cg := core.Catch(func() {
				switch r.Intn(6) {
				case 0:
					nop = "AddParagraph"
					d.AddParagraph("noise")
				case 1:
					nop = "AddHeader"
					d.AddHeader(hfTypes12[r.Intn(3)], "h")
				case 2:
					nop = "AddFooterWithPageNumber"
					d.AddFooterWithPageNumber(hfTypes12[r.Intn(3)], "f", true)
				case 3:
					nop = "SetDifferentFirstPage"
					d.SetDifferentFirstPage(r.Bool())
				case 4:
					nop = "AddTable"
					d.AddTable(&document.TableConfig{Rows: 1, Cols: 2, Width: 4000})
				case 5:
					nop = "AddPageBreak"
					d.AddPageBreak()
				}
			})
			log = append(log, nop)
			if cg != nil {
				res.Add(nop+"/"+cg.Key(), nop+" panicked: "+cg.Msg, cg.Stack)
				break
			}
			res.Count("unrelated_calls", 1)
			var g0 *document.PageSettings
			if cg := core.Catch(func() { g0 = d.GetPageSettings() }); cg != nil {
				res.Add("GetPageSettings/"+cg.Key(), "GetPageSettings panicked: "+cg.Msg, cg.Stack)
				break
			}
			if k, txt := rec.compare(g0); k != "" {
				res.Add("after-unrelated:"+nop+"/"+k, fmt.Sprintf("after %s: %s", nop, txt), "calls: "+strings.Join(tail(log, 12), " "))
				break
			}
			if b, serr := d.ToBytes(); serr == nil && r.Bool() {
				if k, txt := rec.compareSaved(b, !rec.Fresh); k != "" {
					res.Add("saved-after-unrelated:"+nop+"/"+k, fmt.Sprintf("after %s: %s", nop, txt), "calls: "+strings.Join(tail(log, 12), " "))
					break
				}
			}
		}
		prev := rec
		var op, argc string
		var err error
		valid := true
		undetermined := false
		var call func()
		switch r.Intn(12) {
		case 0:
			s := stdNames[r.Intn(5)]
			op, argc = "SetPageSize", string(s)
			call = func() { err = d.SetPageSize(s) }
			rec.Size, rec.W, rec.H = s, stdSizes[s][0], stdSizes[s][1]
		case 1, 2:
			w, h := c12Dim(r), c12Dim(r)
			op, argc = "SetCustomPageSize", fmt.Sprintf("%.4f,%.4f", w, h)
			call = func() { err = d.SetCustomPageSize(w, h) }
			valid = w >= 12.7 && w <= 558.8 && h >= 12.7 && h <= 558.8
			if !valid && w >= 12.7-0.0085 && w <= 558.8+0.0085 && h >= 12.7-0.0085 && h <= 558.8+0.0085 {
				// outside the range by less than the unit rounding: whether that is still the bound itself is the library's decision -
				// all or nothing, and whatever it stores must not get in the way of later calls
				valid, undetermined = true, true
			}
			rec.Size, rec.W, rec.H = document.PageSizeCustom, w, h
		case 3, 4:
			o := []document.PageOrientation{document.OrientationPortrait, document.OrientationLandscape, "sideways", ""}[r.Intn(4)]
			if r.Bool() {
				o = []document.PageOrientation{document.OrientationPortrait, document.OrientationLandscape}[r.Intn(2)]
			}
			op, argc = "SetPageOrientation", string(o)
			call = func() { err = d.SetPageOrientation(o) }
			valid = o == document.OrientationPortrait || o == document.OrientationLandscape
			rec.Orient = o
		case 5, 6:
			a, b2, cc, dd := c12Len(r), c12Len(r), c12Len(r), c12Len(r)
			op, argc = "SetPageMargins", fmt.Sprintf("%.2f,%.2f,%.2f,%.2f", a, b2, cc, dd)
			call = func() { err = d.SetPageMargins(a, b2, cc, dd) }
			valid = a >= 0 && b2 >= 0 && cc >= 0 && dd >= 0
			rec.MT, rec.MR, rec.MB, rec.ML = a, b2, cc, dd
		case 7:
			a, b2 := c12Len(r), c12Len(r)
			op, argc = "SetHeaderFooterDistance", fmt.Sprintf("%.2f,%.2f", a, b2)
			call = func() { err = d.SetHeaderFooterDistance(a, b2) }
			valid = a >= 0 && b2 >= 0
			rec.Header, rec.Footer = a, b2
		case 8:
			a := c12Len(r)
			op, argc = "SetGutterWidth", fmt.Sprintf("%.2f", a)
			call = func() { err = d.SetGutterWidth(a) }
			valid = a >= 0
			rec.Gutter = a
		case 9:
			gt := []document.DocGridType{document.DocGridDefault, document.DocGridLines, document.DocGridSnapToChars, document.DocGridSnapToLines, ""}[r.Intn(5)]
			if r.Chance(1, 6) {
				// a grid type outside the library's constants: the statement does not say whether that is a valid request, so the
				// answer is the library's - but a rejection must change nothing and an acceptance must apply the whole request
				gt = []document.DocGridType{"chars", "linesAndChars", "bogus"}[r.Intn(3)]
				undetermined = true
			}
			pitch, cs := r.Range(0, 800), []int{0, 0, 5, 120}[r.Intn(4)]
			if r.Chance(1, 8) {
				pitch = -r.Range(1, 400) // a negative pitch: again the library's call whether that is a valid request
				undetermined = true
			}
			op, argc = "SetDocGrid", fmt.Sprintf("%s,%d,%d", gt, pitch, cs)
			call = func() { err = d.SetDocGrid(gt, pitch, cs) }
			valid = gt != ""
			rec.GridType, rec.GridPitch, rec.GridChar, rec.GridCleared = gt, pitch, cs, false
		case 10:
			op = "ClearDocGrid"
			call = func() { err = d.ClearDocGrid() }
			rec.GridCleared = true
		case 11:
			s := &document.PageSettings{Orientation: []document.PageOrientation{document.OrientationPortrait, document.OrientationLandscape}[r.Intn(2)],
				MarginTop: math.Abs(c12Len(r)), MarginRight: math.Abs(c12Len(r)), MarginBottom: math.Abs(c12Len(r)), MarginLeft: math.Abs(c12Len(r)),
				HeaderDistance: math.Abs(c12Len(r)), FooterDistance: math.Abs(c12Len(r)), GutterWidth: math.Abs(c12Len(r))}
			if r.Bool() {
				s.Size = stdNames[r.Intn(5)]
			} else {
				s.Size, s.CustomWidth, s.CustomHeight = document.PageSizeCustom, c12Dim(r), c12Dim(r)
			}
			if r.Bool() {
				s.DocGridType, s.DocGridLinePitch, s.DocGridCharSpace = []document.DocGridType{document.DocGridLines, document.DocGridSnapToChars}[r.Intn(2)], r.Range(0, 600), []int{0, 7}[r.Intn(2)]
				if r.Chance(1, 5) {
					s.DocGridType = []document.DocGridType{"chars", "linesAndChars", "bogus"}[r.Intn(3)]
					undetermined = true
				} else if r.Chance(1, 6) {
					s.DocGridLinePitch = -r.Range(1, 400)
					undetermined = true
				}
			}
			op, argc = "SetPageSettings", fmt.Sprintf("%+v", *s)
			call = func() { err = d.SetPageSettings(s) }
			valid = s.Size != document.PageSizeCustom || (s.CustomWidth >= 12.7 && s.CustomWidth <= 558.8 && s.CustomHeight >= 12.7 && s.CustomHeight <= 558.8)
			if !valid && s.CustomWidth >= 12.7-0.0085 && s.CustomWidth <= 558.8+0.0085 && s.CustomHeight >= 12.7-0.0085 && s.CustomHeight <= 558.8+0.0085 {
				valid, undetermined = true, true // within the unit rounding of a bound: the library decides (see SetCustomPageSize)
			}
			rec.Orient = s.Orientation
			rec.MT, rec.MR, rec.MB, rec.ML, rec.Header, rec.Footer, rec.Gutter = s.MarginTop, s.MarginRight, s.MarginBottom, s.MarginLeft, s.HeaderDistance, s.FooterDistance, s.GutterWidth
			if s.Size == document.PageSizeCustom {
				rec.Size, rec.W, rec.H = document.PageSizeCustom, s.CustomWidth, s.CustomHeight
			} else {
				rec.Size, rec.W, rec.H = s.Size, stdSizes[s.Size][0], stdSizes[s.Size][1]
			}
			if s.DocGridType != "" {
				rec.GridType, rec.GridPitch, rec.GridChar, rec.GridCleared = s.DocGridType, s.DocGridLinePitch, s.DocGridCharSpace, false
			}
		}
		log = append(log, op+"("+argc+")")
		kinds[op] = true
		res.Count("calls", 1)
		note := "calls: " + strings.Join(tail(log, 12), " ")
		state := "portrait"
		if prev.Orient == document.OrientationLandscape {
			state = "landscape"
		}
		if prev.Size == document.PageSizeCustom {
			state = "custom+" + state
		}
		if cg := core.Catch(call); cg != nil {
			res.Add(op+"/"+cg.Key(), op+" panicked: "+cg.Msg, note, cg.Stack)
			break
		}
		if undetermined && valid {
			valid = err == nil
			res.Count("requests_whose_validity_the_library_decides", 1)
		}
		if !valid {
			rec = prev
			if err == nil {
				res.Add(op+"/invalid-request-accepted", fmt.Sprintf("%s(%s) returned nil for an invalid request", op, argc), note)
				break
			}
			res.Count("invalid_rejected", 1)
		} else {
			if err != nil {
				res.Add(op+"/"+state+"/valid-request-rejected", fmt.Sprintf("%s(%s) failed: %v", op, argc, err), note)
				break
			}
			okCalls++
			anySetter = true
			if op == "SetPageSettings" && prev.Fresh && strings.Contains(argc, "DocGridType: ") {
				rec.GridCleared = true // settings written without naming a grid: none is written
			}
			rec.Fresh = false
		}
		var g *document.PageSettings
		if cg := core.Catch(func() { g = d.GetPageSettings() }); cg != nil {
			res.Add("GetPageSettings/"+cg.Key(), "GetPageSettings panicked: "+cg.Msg, note, cg.Stack)
			break
		}
		res.Count("readbacks", 1)
		if k, txt := rec.compare(g); k != "" {
			what := "after-" + op
			if !valid {
				what = "after-rejected-" + op
			}
			res.Add(what+"/"+state+"/"+k, fmt.Sprintf("after %s(%s): %s", op, argc, txt), note)
			break
		}
		// saved attributes, and the same values after save/open
		if r.Chance(1, 4) || i == n-1 {
			b, serr := d.ToBytes()
			if serr != nil {
				continue
			}
			res.Count("saves_compared", 1)
			if k, txt := rec.compareSaved(b, !rec.Fresh); k != "" {
				res.Add("saved/"+state+"/"+k, fmt.Sprintf("after %s(%s): %s", op, argc, txt), note)
				break
			}
			if r.Bool() {
				d2, oerr := document.OpenFromMemory(io.NopCloser(bytes.NewReader(b)))
				if oerr != nil || d2 == nil || d2.Body == nil {
					res.Add("reopen/open-failed", fmt.Sprintf("the saved document could not be reopened: %v", oerr), note)
					break
				}
				res.Count("reopens", 1)
				var g2 *document.PageSettings
				if cg := core.Catch(func() { g2 = d2.GetPageSettings() }); cg != nil {
					res.Add("GetPageSettings(reopened)/"+cg.Key(), "GetPageSettings panicked on the reopened document", note, cg.Stack)
					break
				}
				rr := rec
				if rec.Fresh {
					rr = defaultRec()
				}
				if rr.GridCleared {
					// a cleared grid reads back as "not set"; the accessor then reports its defaults
					rr.GridCleared = true
				}
				if k, txt := rr.compare(g2); k != "" {
					res.Add("reopen/"+state+"/"+k, "after save and reopen: "+txt, note)
					break
				}
				d = d2
				log = append(log, "reopen")
			}
		}
	}
	res.Nontrivial = okCalls >= 2 && len(kinds) >= 2
	res.Sig = strings.Join(log, ";")
	res.Sample = map[string]interface{}{"case": c.Case, "calls": tail(log, 14)}
	return res
}

func init() {
	core.Register(&core.Check{
		ID:    "C12",
		Level: "exploration",
		Rule: "sequences of SetPageSettings/SetPageSize/SetCustomPageSize/SetPageOrientation/SetPageMargins/SetHeaderFooterDistance/SetGutterWidth/SetDocGrid/ClearDocGrid with the five predefined sizes, custom sizes log-uniform over [12.7,558.8] mm, at the bounds and 0.05 mm outside, invalid (<=0, below, above), within +-0.99 mm of a predefined dimension, " +
			"both orientations and invalid ones, lengths incl. 0, negative (invalid) and large; after EVERY call GetPageSettings is compared with the reference record (most recent call naming each attribute, defaults otherwise; tolerance half a twip; a custom size within 1 mm of a standard one may be reported as that standard size), rejected calls must change nothing; " +
			"at random points w:pgSz/w:pgMar/w:docGrid of the saved main part are compared (physical dimensions swapped iff landscape) and the document is reopened and read back. Non-trivial: >=2 accepted calls of >=2 kinds; distinct = call sequence with arguments.",
		Cases:         func(t string) int { return tierN(t, 6000, 250000) },
		Run:           c12Case,
		Assume:        []string{"unknown PageSize names and NaN/Inf are outside the quantifier and not generated", "after ClearDocGrid the grid fields of GetPageSettings are not compared (the API has no value for 'no grid'), only the saved w:docGrid"},
		CaseTimeoutS:  60,
		MinNontrivial: 500,
	})
}
