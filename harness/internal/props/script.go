// Package props holds one file per property plus the shared operation-script
// generator that drives the public API of the library.
package props

import (
	"bytes"
	"fmt"
	"io"
	"os"
	"path/filepath"
	"sort"
	"strings"

	"github.com/zerx-lab/wordZero/pkg/document"
	"github.com/zerx-lab/wordZero/pkg/markdown"
	"github.com/zerx-lab/wordZero/pkg/style"

	"verifharness/internal/core"
	"verifharness/internal/gen"
	"verifharness/internal/rng"
)

// Script is a generated sequence of public API calls executed on one document.
type Script struct {
	R        *rng.R
	Doc      *document.Document
	Hostile  bool // strings from the hostile corpus (else XML-safe)
	WorkDir  string
	Log      []string // names of the calls that were executed
	Kinds    map[string]int
	Panic    *core.Caught // first panic of an API call; the document is quarantined afterwards
	Tables   []*document.Table
	Paras    []*document.Paragraph
	Images   []*document.ImageInfo
	serial   int
	Reopens  int
	Renders  int
	Extra    []*document.Document // further documents the script produced (batch renders); the case saves and inspects them too
	NoLists  bool                 // leave out calls that touch the process-wide registries
	NoReopen bool
	Weights  map[string]int // optional weight overrides per op name
	// StyleMarks: style id -> run colour written into the registered style object by the latest in-place change (the only way the
	// API offers to change a style); the next save, and every later one, has to show it
	StyleMarks map[string]string
	ownStyles  map[string]bool // custom styles this script created itself
	usedStyles map[string]bool
}

func NewScript(r *rng.R, hostile bool, workDir string) *Script {
	return &Script{R: r, Doc: document.New(), Hostile: hostile, WorkDir: workDir, Kinds: map[string]int{}}
}

func (s *Script) Str() string {
	if s.Hostile {
		return gen.HostileString(s.R)
	}
	return gen.SafeString(s.R)
}

type tplNamed string
type tplStringer struct{ v string }

func (t tplStringer) String() string { return t.v }

type tplErr struct{ v string }

func (t tplErr) Error() string { return t.v }

// TemplateValue draws a template variable value of any dynamic type a caller may legitimately pass
// (SetVariable takes interface{}): the text that ends up in the document is the same hostile/safe corpus string.
func (s *Script) TemplateValue() interface{} {
	v := s.Str()
	switch s.R.Intn(12) {
	case 0:
		return tplNamed(v)
	case 1:
		return tplStringer{v}
	case 2:
		return []string{v, s.Str()}
	case 3:
		return tplErr{v}
	case 4:
		return []byte(v)
	case 5:
		return map[string]string{v: v}
	case 6:
		return &tplStringer{v}
	case 7:
		return []interface{}{v, 1, nil}
	case 8:
		return s.R.Intn(1000)
	case 9:
		return nil
	}
	return v
}

func (s *Script) note(name string) {
	s.Log = append(s.Log, name)
	s.Kinds[name]++
}

func (s *Script) TextFormat() *document.TextFormat {
	r := s.R
	if r.Chance(1, 6) {
		return nil
	}
	colors := []string{"", "FF0000", "00ff00", "#123456", "red", "zzzzzz", "<&>"}
	fonts := []string{"", "Arial", "宋体", "Times New Roman", "<font>", "a\"b"}
	tf := &document.TextFormat{Bold: r.Bool(), Italic: r.Bool(), Underline: r.Bool(), Strike: r.Bool(),
		FontSize: []int{0, 1, 9, 12, 72, -3, 1638}[r.Intn(7)], FontColor: r.Pick(colors), Highlight: r.Pick([]string{"", "yellow", "green", "none", "bogus"})}
	if r.Bool() {
		tf.FontFamily = r.Pick(fonts)
	} else {
		tf.FontName = r.Pick(fonts)
	}
	if s.Hostile && r.Chance(1, 5) {
		tf.FontFamily = s.Str()
		tf.FontColor = s.Str()
	}
	return tf
}

var hfTypes = []document.HeaderFooterType{document.HeaderFooterTypeDefault, document.HeaderFooterTypeFirst, document.HeaderFooterTypeEven}
var aligns = []document.AlignmentType{document.AlignLeft, document.AlignCenter, document.AlignRight, document.AlignJustify, ""}
var listTypes = []document.ListType{document.ListTypeBullet, document.ListTypeNumber, document.ListTypeDecimal, document.ListTypeLowerLetter, document.ListTypeUpperLetter, document.ListTypeLowerRoman, "upperRoman", ""}
var bulletTypes = []document.BulletType{document.BulletTypeDot, document.BulletTypeCircle, document.BulletTypeSquare, document.BulletTypeDash, document.BulletTypeArrow, "*", ""}
var imageNames = []string{"pic.png", "x.jpg", "x.JPG", "photo.jpeg", "anim.gif", "noext", "x.tar.gz", "名前.png", "x.", ".png", "a b.png", "image0.png", "cell_image.png", "x.bmp", "q.PNG"}

func (s *Script) nextImage() gen.Image {
	s.serial++
	return gen.RandomImage(s.R, s.serial)
}

func imgFormat(f string) document.ImageFormat {
	switch f {
	case "jpeg":
		return document.ImageFormatJPEG
	case "gif":
		return document.ImageFormatGIF
	}
	return document.ImageFormatPNG
}

func (s *Script) imageConfig() *document.ImageConfig {
	r := s.R
	if r.Chance(1, 3) {
		return nil
	}
	c := &document.ImageConfig{AltText: s.Str(), Title: s.Str()}
	switch r.Intn(6) {
	case 0:
		c.Size = &document.ImageSize{Width: float64(r.Range(1, 200)), Height: float64(r.Range(1, 200))}
	case 1:
		c.Size = &document.ImageSize{Width: float64(r.Range(1, 200)), KeepAspectRatio: true}
	case 2:
		c.Size = &document.ImageSize{Height: float64(r.Range(1, 200)), KeepAspectRatio: true}
	case 3:
		c.Size = &document.ImageSize{Width: float64(r.Range(1, 200))}
	}
	c.Position = []document.ImagePosition{document.ImagePositionInline, document.ImagePositionFloatLeft, document.ImagePositionFloatRight, ""}[r.Intn(4)]
	c.WrapText = []document.ImageWrapText{document.ImageWrapNone, document.ImageWrapSquare, document.ImageWrapTight, document.ImageWrapTopAndBottom, ""}[r.Intn(5)]
	c.Alignment = aligns[r.Intn(len(aligns))]
	c.OffsetX = float64(r.Range(-5, 50))
	c.OffsetY = float64(r.Range(-5, 50))
	return c
}

func (s *Script) tableConfig(maxR, maxC int) *document.TableConfig {
	r := s.R
	rows, cols := r.Range(1, maxR), r.Range(1, maxC)
	c := &document.TableConfig{Rows: rows, Cols: cols, Width: []int{0, 3000, 9000}[r.Intn(3)]}
	if r.Bool() {
		c.Data = make([][]string, rows)
		for i := range c.Data {
			c.Data[i] = make([]string, cols)
			for j := range c.Data[i] {
				c.Data[i][j] = s.Str()
			}
		}
	}
	if r.Chance(1, 4) {
		c.ColWidths = make([]int, cols)
		for j := range c.ColWidths {
			c.ColWidths[j] = r.Range(200, 3000)
		}
	}
	return c
}

func (s *Script) pickTable() *document.Table {
	if len(s.Tables) == 0 {
		return nil
	}
	return s.Tables[s.R.Intn(len(s.Tables))]
}

func (s *Script) pickPara() *document.Paragraph {
	if len(s.Paras) == 0 {
		return nil
	}
	return s.Paras[s.R.Intn(len(s.Paras))]
}

func (s *Script) cellOf(t *document.Table) (int, int) {
	rc := t.GetRowCount()
	if rc == 0 {
		return 0, 0
	}
	row := s.R.Intn(rc)
	n := len(t.Rows[row].Cells)
	if n == 0 {
		return row, 0
	}
	return row, s.R.Intn(n)
}

// op is one weighted operation.
type op struct {
	name string
	w    int
	f    func(s *Script)
}

func border(r *rng.R) *document.BorderConfig {
	if r.Chance(1, 4) {
		return nil
	}
	return &document.BorderConfig{Style: []document.BorderStyle{"single", "double", "dashed", "none", "bogus"}[r.Intn(5)], Width: r.Range(0, 24), Color: []string{"000000", "FF0000", "auto", "x"}[r.Intn(4)], Space: r.Range(0, 4)}
}

var scriptOps []op

func init() {
	scriptOps = []op{
		{"AddParagraph", 10, func(s *Script) { s.Paras = append(s.Paras, s.Doc.AddParagraph(s.Str())) }},
		{"AddFormattedParagraph", 5, func(s *Script) { s.Paras = append(s.Paras, s.Doc.AddFormattedParagraph(s.Str(), s.TextFormat())) }},
		{"AddHeadingParagraph", 6, func(s *Script) {
			s.Paras = append(s.Paras, s.Doc.AddHeadingParagraph(s.Str(), s.R.Range(0, 10)))
		}},
		{"AddHeadingParagraphWithBookmark", 3, func(s *Script) {
			s.Paras = append(s.Paras, s.Doc.AddHeadingParagraphWithBookmark(s.Str(), s.R.Range(1, 9), s.Str()))
		}},
		{"AddHeadingWithBookmark", 2, func(s *Script) {
			s.Paras = append(s.Paras, s.Doc.AddHeadingWithBookmark(s.Str(), s.R.Range(1, 9), s.Str()))
		}},
		{"AddPageBreak", 2, func(s *Script) { s.Doc.AddPageBreak() }},
		{"Paragraph.setters", 12, func(s *Script) {
			p := s.pickPara()
			if p == nil {
				return
			}
			r := s.R
			switch r.Intn(22) {
			case 0:
				p.SetAlignment(aligns[r.Intn(len(aligns))])
			case 1:
				p.SetSpacing(&document.SpacingConfig{LineSpacing: []float64{0, 1, 1.5, -1, 100}[r.Intn(5)], BeforePara: r.Range(-2, 40), AfterPara: r.Range(-2, 40), FirstLineIndent: r.Range(-10, 40)})
			case 2:
				p.AddFormattedText(s.Str(), s.TextFormat())
			case 3:
				p.AddPageBreak()
			case 4:
				p.SetStyle([]string{"Normal", "Heading1", "Heading9", "Quote", "CodeBlock", "Title", "ListParagraph", "Emphasis", "Strong", "CodeChar"}[r.Intn(10)])
			case 5:
				p.SetIndentation(float64(r.Range(-3, 5)), float64(r.Range(-1, 5)), float64(r.Range(-1, 5)))
			case 6:
				p.SetKeepWithNext(r.Bool())
			case 7:
				p.SetKeepLines(r.Bool())
			case 8:
				p.SetPageBreakBefore(r.Bool())
			case 9:
				p.SetWidowControl(r.Bool())
			case 10:
				p.SetOutlineLevel(r.Range(-1, 10))
			case 11:
				p.SetSnapToGrid(r.Bool())
			case 12:
				b := r.Bool()
				p.SetParagraphFormat(&document.ParagraphFormatConfig{Alignment: aligns[r.Intn(len(aligns))], Style: []string{"", "Normal", "Heading2"}[r.Intn(3)], LineSpacing: 1.5, BeforePara: r.Range(0, 20),
					FirstLineCm: 0.5, LeftCm: 1, KeepWithNext: r.Bool(), KeepLines: r.Bool(), PageBreakBefore: r.Bool(), WidowControl: r.Bool(), SnapToGrid: &b, OutlineLevel: r.Range(0, 8)})
			case 13:
				pb := func() *document.ParagraphBorderConfig {
					if r.Chance(1, 3) {
						return nil
					}
					return &document.ParagraphBorderConfig{Style: []document.BorderStyle{"single", "double", "none", "zz"}[r.Intn(4)], Size: r.Range(0, 30), Color: []string{"000000", "auto", "<"}[r.Intn(3)], Space: r.Range(0, 5)}
				}
				p.SetBorder(pb(), pb(), pb(), pb())
			case 14:
				p.SetHorizontalRule("single", r.Range(1, 12), "808080")
			case 15:
				p.SetUnderline(r.Bool())
			case 16:
				p.SetBold(r.Bool())
			case 17:
				p.SetItalic(r.Bool())
			case 18:
				p.SetStrike(r.Bool())
			case 19:
				p.SetHighlight([]string{"yellow", "none", "x"}[r.Intn(3)])
				p.SetFontFamily(s.Str())
			case 20:
				p.SetFontSize(r.Range(-1, 80))
				p.SetColor([]string{"FF00FF", "auto", "&"}[r.Intn(3)])
			case 21:
				if s.Hostile {
					p.AddInlineMath(s.Str())
				} else {
					om, err := markdown.LaTeXToOMMLString("x^2+\\frac{a}{b}", false)
					if err == nil {
						p.AddInlineMath(om)
					}
				}
			}
		}},
		{"AddTable", 5, func(s *Script) {
			t, err := s.Doc.AddTable(s.tableConfig(5, 5))
			if err == nil && t != nil {
				s.Tables = append(s.Tables, t)
			}
		}},
		{"Table.content", 10, func(s *Script) {
			t := s.pickTable()
			if t == nil {
				return
			}
			r := s.R
			row, col := s.cellOf(t)
			switch r.Intn(12) {
			case 0:
				t.SetCellText(row, col, s.Str())
			case 1:
				t.SetCellFormattedText(row, col, s.Str(), s.TextFormat())
			case 2:
				t.AddCellFormattedText(row, col, s.Str(), s.TextFormat())
			case 3:
				if p, err := t.AddCellParagraph(row, col, s.Str()); err == nil && p != nil {
					s.Paras = append(s.Paras, p)
				}
			case 4:
				t.AddCellFormattedParagraph(row, col, s.Str(), s.TextFormat())
			case 5:
				t.ClearCellContent(row, col)
			case 6:
				t.ClearCellParagraphs(row, col)
			case 7:
				if !s.NoLists {
					items := make([]string, r.Range(0, 4))
					for i := range items {
						items[i] = s.Str()
					}
					t.AddCellList(row, col, &document.CellListConfig{Type: listTypes[r.Intn(len(listTypes))], BulletSymbol: bulletTypes[r.Intn(len(bulletTypes))], Items: items})
				}
			case 8:
				if nt, err := t.AddNestedTable(row, col, s.tableConfig(3, 3)); err == nil && nt != nil && r.Bool() {
					s.Tables = append(s.Tables, nt)
				}
			case 9:
				im := s.nextImage()
				cfg := &document.CellImageConfig{Data: im.Data, Width: float64(r.Range(0, 80)), Height: float64(r.Range(0, 80)), KeepAspectRatio: r.Bool(), AltText: s.Str(), Title: s.Str()}
				if r.Bool() {
					cfg.Format = imgFormat(im.Format)
				}
				if info, err := s.Doc.AddCellImage(t, row, col, cfg); err == nil {
					s.Images = append(s.Images, info)
				}
			case 10:
				im := s.nextImage()
				if info, err := s.Doc.AddCellImageFromData(t, row, col, im.Data, float64(r.Range(0, 60))); err == nil {
					s.Images = append(s.Images, info)
				}
			case 11:
				im := s.nextImage()
				name := imageNames[r.Intn(len(imageNames))]
				path := filepath.Join(s.WorkDir, name)
				if os.WriteFile(path, im.Data, 0644) == nil {
					if info, err := s.Doc.AddCellImageFromFile(t, row, col, path, float64(r.Range(0, 60))); err == nil {
						s.Images = append(s.Images, info)
					}
				}
			}
		}},
		{"Table.structure", 7, func(s *Script) {
			t := s.pickTable()
			if t == nil {
				return
			}
			r := s.R
			rc, cc := t.GetRowCount(), t.GetColumnCount()
			data := func(n int) []string {
				if r.Chance(1, 3) {
					return nil
				}
				d := make([]string, n)
				for i := range d {
					d[i] = s.Str()
				}
				return d
			}
			switch r.Intn(11) {
			case 0:
				t.InsertRow(r.Range(0, rc), data(cc))
			case 1:
				t.AppendRow(data(cc))
			case 2:
				if rc > 1 {
					t.DeleteRow(r.Intn(rc))
				}
			case 3:
				// column edits only on tables without merges (a separate, known C09 defect panics otherwise)
				if !tableHasMerges(t) {
					t.InsertColumn(r.Range(0, cc), data(rc), r.Range(500, 2000))
				}
			case 4:
				if !tableHasMerges(t) {
					t.AppendColumn(data(rc), r.Range(500, 2000))
				}
			case 5:
				if cc > 1 && !tableHasMerges(t) {
					t.DeleteColumn(r.Intn(cc))
				}
			case 6:
				if cc > 1 && rc > 0 {
					a := r.Intn(cc - 1)
					t.MergeCellsHorizontal(r.Intn(rc), a, r.Range(a+1, cc-1))
				}
			case 7:
				if rc > 1 && cc > 0 {
					a := r.Intn(rc - 1)
					t.MergeCellsVertical(a, r.Range(a+1, rc-1), r.Intn(cc))
				}
			case 8:
				if rc > 1 && cc > 1 {
					t.MergeCellsRange(0, r.Range(0, rc-1), 0, r.Range(0, cc-1))
				}
			case 9:
				row, col := s.cellOf(t)
				t.UnmergeCells(row, col)
			case 10:
				cp := t.CopyTable()
				if cp != nil && r.Bool() {
					s.Doc.Body.AddElement(cp)
					s.Tables = append(s.Tables, cp)
				}
			}
		}},
		{"Table.look", 7, func(s *Script) {
			t := s.pickTable()
			if t == nil {
				return
			}
			r := s.R
			row, col := s.cellOf(t)
			rc := t.GetRowCount()
			switch r.Intn(16) {
			case 0:
				t.SetCellFormat(row, col, &document.CellFormat{TextFormat: s.TextFormat(), HorizontalAlign: []document.CellAlignment{"left", "center", "right", "both", ""}[r.Intn(5)],
					VerticalAlign: []document.CellVerticalAlignment{"top", "center", "bottom", ""}[r.Intn(4)], TextDirection: []document.CellTextDirection{"lrTb", "tbRl", "btLr", ""}[r.Intn(4)],
					BackgroundColor: []string{"", "FFFF00", "auto"}[r.Intn(3)], BorderStyle: []string{"", "single"}[r.Intn(2)], Padding: r.Range(0, 10)})
			case 1:
				t.SetCellTextDirection(row, col, []document.CellTextDirection{"lrTb", "tbRl", "btLr", "lrTbV", "tbRlV", "tbLrV"}[r.Intn(6)])
			case 2:
				t.SetCellPadding(row, col, r.Range(-1, 20))
			case 3:
				t.SetRowHeight(row, &document.RowHeightConfig{Height: r.Range(0, 100), Rule: []document.RowHeightRule{"auto", "atLeast", "exact", ""}[r.Intn(4)]})
			case 4:
				t.SetRowHeightRange(0, r.Range(0, rc), &document.RowHeightConfig{Height: r.Range(1, 60), Rule: "exact"})
			case 5:
				t.SetTableAlignment([]document.TableAlignment{"left", "center", "right", ""}[r.Intn(4)])
			case 6:
				t.SetRowKeepTogether(row, r.Bool())
				t.SetRowAsHeader(row, r.Bool())
			case 7:
				t.SetHeaderRows(0, r.Range(0, rc))
				t.SetRowKeepWithNext(row, r.Bool())
			case 8:
				// only the library's documented template constants (an arbitrary id would be caller misuse)
				tmpl := []document.TableStyleTemplate{document.TableStyleTemplateNormal, document.TableStyleTemplateGrid, document.TableStyleTemplateList, document.TableStyleTemplateColorful1, document.TableStyleTemplateColumns2, document.TableStyleTemplateRows3, document.TableStyleTemplatePlain1, ""}[r.Intn(8)]
				cfg := &document.TableStyleConfig{Template: tmpl, FirstRowHeader: r.Bool(), LastRowTotal: r.Bool(), FirstColumnHeader: r.Bool(), BandedRows: r.Bool(), BandedColumns: r.Bool()}
				if r.Chance(1, 3) {
					// a table style of the caller's own, created through the helper the library offers for it (on new, opened and
					// rendered documents alike)
					var sh *document.ShadingConfig
					if r.Bool() {
						sh = &document.ShadingConfig{Pattern: "clear", BackgroundColor: "EEEEEE"}
					}
					t.CreateCustomTableStyle("CustTbl"+gen.Word(r, 1, 3), s.Str(), &document.TableBorderConfig{Top: border(r), Bottom: border(r)}, sh, r.Bool())
					break
				}
				t.ApplyTableStyle(cfg)
			case 9:
				t.SetTableBorders(&document.TableBorderConfig{Top: border(r), Left: border(r), Bottom: border(r), Right: border(r), InsideH: border(r), InsideV: border(r)})
			case 10:
				t.SetTableShading(&document.ShadingConfig{Pattern: []document.ShadingPattern{"clear", "solid", "pct10", "bogus"}[r.Intn(4)], ForegroundColor: "FF0000", BackgroundColor: "00FF00"})
			case 11:
				t.SetCellBorders(row, col, &document.CellBorderConfig{Top: border(r), Left: border(r), Bottom: border(r), Right: border(r), DiagDown: border(r), DiagUp: border(r)})
			case 12:
				t.SetCellShading(row, col, &document.ShadingConfig{Pattern: "clear", BackgroundColor: "DDDDDD"})
			case 13:
				t.SetAlternatingRowColors("EEEEEE", "FFFFFF")
			case 14:
				t.RemoveTableBorders()
				t.RemoveCellBorders(row, col)
			case 15:
				t.ClearCellFormat(row, col)
			}
		}},
		{"AddImageFromData", 5, func(s *Script) {
			im := s.nextImage()
			name := imageNames[s.R.Intn(len(imageNames))]
			if s.Hostile && s.R.Chance(1, 3) {
				name = s.Str()
			}
			format := imgFormat(im.Format)
			if s.R.Chance(1, 8) {
				// the format is a string type: the caller may name a format the library has no constant for, or spell one differently;
				// the call may refuse it, but a picture it accepts is a part like any other
				format = document.ImageFormat([]string{"bmp", "", "PNG", "jpg", "tiff", "svg+xml", "image/png", s.Str()}[s.R.Intn(8)])
			}
			if info, err := s.Doc.AddImageFromData(im.Data, name, format, im.W, im.H, s.imageConfig()); err == nil {
				s.Images = append(s.Images, info)
			}
		}},
		{"AddImageFromFile", 3, func(s *Script) {
			im := s.nextImage()
			name := imageNames[s.R.Intn(len(imageNames))]
			path := filepath.Join(s.WorkDir, name)
			if os.WriteFile(path, im.Data, 0644) != nil {
				return
			}
			if info, err := s.Doc.AddImageFromFile(path, s.imageConfig()); err == nil {
				s.Images = append(s.Images, info)
			}
		}},
		{"Image.setters", 2, func(s *Script) {
			if len(s.Images) == 0 {
				return
			}
			info := s.Images[s.R.Intn(len(s.Images))]
			switch s.R.Intn(6) {
			case 0:
				s.Doc.ResizeImage(info, &document.ImageSize{Width: 30, Height: 20})
			case 1:
				s.Doc.SetImagePosition(info, document.ImagePositionFloatLeft, 3, 4)
			case 2:
				s.Doc.SetImageWrapText(info, document.ImageWrapTight)
			case 3:
				s.Doc.SetImageAltText(info, s.Str())
			case 4:
				s.Doc.SetImageTitle(info, s.Str())
			case 5:
				s.Doc.SetImageAlignment(info, aligns[s.R.Intn(len(aligns))])
			}
		}},
		{"Header/Footer", 8, func(s *Script) {
			r := s.R
			ht := hfTypes[r.Intn(3)]
			if s.Hostile && r.Chance(1, 10) {
				ht = document.HeaderFooterType(s.Str())
			}
			txt := s.Str()
			if r.Chance(1, 4) {
				txt = "H {{x}} {{name}} " + txt // placeholders for a later RenderAsTemplate step
			}
			switch r.Intn(7) {
			case 0:
				s.Doc.AddHeader(ht, txt)
			case 1:
				s.Doc.AddFooter(ht, txt)
			case 2:
				s.Doc.AddHeaderWithPageNumber(ht, s.Str(), r.Bool())
			case 3:
				s.Doc.AddFooterWithPageNumber(ht, s.Str(), r.Bool())
			case 4:
				var cfg *document.HeaderFooterConfig
				if !r.Chance(1, 6) {
					cfg = &document.HeaderFooterConfig{Text: s.Str(), Format: s.TextFormat(), Alignment: aligns[r.Intn(len(aligns))]}
				}
				s.Doc.AddFormattedHeader(ht, cfg)
			case 5:
				s.Doc.AddFormattedFooter(ht, &document.HeaderFooterConfig{Text: s.Str(), Format: s.TextFormat(), Alignment: aligns[r.Intn(len(aligns))]})
			case 6:
				s.Doc.SetDifferentFirstPage(r.Bool())
			}
		}},
		{"Notes", 5, func(s *Script) {
			if s.NoLists {
				return
			}
			r := s.R
			// note texts may hold anything a caller has in a string, also what XML cannot carry: whatever the call answers
			// (a replacement character, an error), the package saved afterwards has to be consistent
			noteText := func() string {
				if r.Chance(1, 3) {
					return gen.HostileString(r)
				}
				return s.Str()
			}
			switch r.Intn(6) {
			case 0, 1:
				s.Doc.AddFootnote(s.Str(), noteText())
			case 2:
				s.Doc.AddEndnote(s.Str(), noteText())
			case 3:
				cfg := &document.FootnoteConfig{NumberFormat: []document.FootnoteNumberFormat{"decimal", "lowerRoman", "upperRoman", "lowerLetter", "upperLetter", "symbol", ""}[r.Intn(7)], StartNumber: r.Range(-1, 9),
					RestartEach: []document.FootnoteRestart{"continuous", "eachSect", "eachPage", ""}[r.Intn(4)], Position: []document.FootnotePosition{"pageBottom", "beneathText", "sectEnd", "docEnd", ""}[r.Intn(5)]}
				if r.Chance(1, 8) {
					cfg = nil
				}
				s.Doc.SetFootnoteConfig(cfg)
			case 4:
				if p := s.pickPara(); p != nil && len(p.Runs) > 0 {
					s.Doc.AddFootnoteToRun(&p.Runs[0], noteText())
				}
			case 5:
				s.Doc.GetFootnoteCount()
				s.Doc.GetEndnoteCount()
			}
		}},
		{"Lists", 6, func(s *Script) {
			if s.NoLists {
				return
			}
			r := s.R
			// few kinds, many start numbers: items of one (type, symbol, level) kind with different configurations meet often
			lvl := func() int {
				if r.Chance(3, 4) {
					return r.Intn(2)
				}
				return r.Range(0, 8)
			}
			switch r.Intn(5) {
			case 0:
				var cfg *document.ListConfig
				if !r.Chance(1, 6) {
					cfg = &document.ListConfig{Type: listTypes[r.Intn(len(listTypes))], BulletSymbol: bulletTypes[r.Intn(len(bulletTypes))], StartNumber: r.Range(0, 12), IndentLevel: lvl()}
					if s.Hostile && r.Chance(1, 6) {
						cfg.BulletSymbol = document.BulletType(s.Str())
					}
				}
				s.Paras = append(s.Paras, s.Doc.AddListItem(s.Str(), cfg))
			case 1:
				s.Paras = append(s.Paras, s.Doc.AddBulletList(s.Str(), lvl(), bulletTypes[r.Intn(len(bulletTypes))]))
			case 2:
				s.Paras = append(s.Paras, s.Doc.AddNumberedList(s.Str(), lvl(), listTypes[r.Intn(len(listTypes))]))
			case 3:
				items := make([]document.ListItem, r.Range(0, 4))
				for i := range items {
					items[i] = document.ListItem{Text: s.Str(), Level: r.Range(0, 8), Type: listTypes[r.Intn(len(listTypes))], BulletSymbol: bulletTypes[r.Intn(len(bulletTypes))], StartNumber: r.Range(0, 5)}
				}
				s.Doc.CreateMultiLevelList(items)
			case 4:
				s.Doc.RestartNumbering(fmt.Sprint(r.Range(0, 5)))
			}
		}},
		{"TOC", 3, func(s *Script) {
			r := s.R
			cfg := &document.TOCConfig{Title: s.Str(), MaxLevel: r.Range(0, 9), ShowPageNum: r.Bool(), RightAlign: r.Bool(), UseHyperlink: r.Bool(), DotLeader: r.Bool()}
			if r.Chance(1, 5) {
				cfg = nil
			}
			switch r.Intn(5) {
			case 0, 1:
				s.Doc.GenerateTOC(cfg)
			case 2:
				s.Doc.UpdateTOC()
			case 3:
				s.Doc.AutoGenerateTOC(cfg)
			case 4:
				s.Doc.SetTOCStyle(r.Range(0, 10), s.TextFormat())
				s.Doc.ListHeadings()
				s.Doc.GetHeadingCount()
			}
		}},
		{"Properties", 3, func(s *Script) {
			r := s.R
			switch r.Intn(5) {
			case 0:
				s.Doc.SetTitle(s.Str())
				s.Doc.SetAuthor(s.Str())
			case 1:
				s.Doc.SetSubject(s.Str())
				s.Doc.SetKeywords(s.Str())
				s.Doc.SetDescription(s.Str())
				s.Doc.SetCategory(s.Str())
			case 2:
				s.Doc.SetDocumentProperties(&document.DocumentProperties{Title: s.Str(), Subject: s.Str(), Creator: s.Str(), Keywords: s.Str(), Description: s.Str(), Language: s.Str(), Category: s.Str(), Version: s.Str(), Revision: s.Str(), Pages: r.Range(-1, 9)})
			case 3:
				s.Doc.UpdateStatistics()
			case 4:
				s.Doc.GetDocumentProperties()
			}
		}},
		{"PageSettings", 5, func(s *Script) {
			r := s.R
			switch r.Intn(9) {
			case 0:
				s.Doc.SetPageSize([]document.PageSize{"A4", "Letter", "Legal", "A3", "A5", "Custom", "bogus"}[r.Intn(7)])
			case 1:
				s.Doc.SetCustomPageSize(float64(r.Range(-10, 700)), float64(r.Range(-10, 700)))
			case 2:
				s.Doc.SetPageOrientation([]document.PageOrientation{"portrait", "landscape", "x"}[r.Intn(3)])
			case 3:
				s.Doc.SetPageMargins(float64(r.Range(-1, 60)), float64(r.Range(0, 60)), float64(r.Range(0, 60)), float64(r.Range(0, 60)))
			case 4:
				s.Doc.SetHeaderFooterDistance(float64(r.Range(-1, 30)), float64(r.Range(0, 30)))
			case 5:
				s.Doc.SetGutterWidth(float64(r.Range(-1, 30)))
			case 6:
				s.Doc.SetDocGrid([]document.DocGridType{"default", "lines", "snapToChars", "snapToLines", "x"}[r.Intn(5)], r.Range(-1, 600), r.Range(-1, 100))
			case 7:
				s.Doc.ClearDocGrid()
			case 8:
				ps := s.Doc.GetPageSettings()
				if ps != nil {
					ps.MarginLeft = float64(r.Range(0, 50))
					if r.Chance(1, 3) {
						// negative top/bottom margins are legal in the format (the body text may overlap the header area) and the
						// all-at-once entry point accepts them
						ps.MarginTop, ps.MarginBottom = -float64(r.Range(1, 40)), -float64(r.Range(0, 30))
					}
					s.Doc.SetPageSettings(ps)
				}
			}
		}},
		{"AddMathFormula", 3, func(s *Script) {
			if s.Hostile && s.R.Bool() {
				f := s.Str()
				if s.R.Bool() {
					// markup that is nearly a formula: the call may refuse it or must write something well-formed
					f = []string{
						"<m:r><m:t>x</m:r></m:t>",                           // balanced in count, closed in the wrong order
						"<m:f><m:num><m:r><m:t>a</m:t></m:r></m:f></m:num>", // same, deeper
						"<m:r><m:t>x</m:t>",                                 // unclosed
						"<m:t>x</m:t></m:r>",                                // closes what it did not open
						"</m:oMath><m:oMath>",                               // leaves the wrapper
						"</m:oMath></w:p><w:p><m:oMath>",
						"<q:r><q:t>x</q:t></q:r>", // unbound prefix
						"<m:r m:x=1><m:t>x</m:t></m:r>",
						"<m:r><m:t>&nbsp;&foo;</m:t></m:r>",
						"<m:r><m:t><![CDATA[x]]></m:t></m:r>",
						"<m:r><m:t><![CDATA[x</m:t></m:r>",
						"<m:r><!-- c --><m:t>x</m:t></m:r>",
						"<m:r><!-- c -- d --><m:t>x</m:t></m:r>",
						"<?pi x?><m:r><m:t>x</m:t></m:r>",
						"<m:r><m:t>x</m:t></m:r><",
						"<m:r xmlns:m=\"urn:other\"><m:t>x</m:t></m:r>",
						"<m:r><m:t a=\"1\" a=\"2\">x</m:t></m:r>",
						"<m:r><M:t>x</m:t></m:r>",
						"<m:r><m:t>x</m:T></m:r>",
						"<m:r><m:t>" + s.Str() + "</m:t></m:r>",
					}[s.R.Intn(20)]
				}
				s.Doc.AddMathFormula(f, s.R.Bool())
				return
			}
			if s.R.Chance(1, 4) {
				// formula markup written by hand or copied from another document: fragments that bring a namespace prefix of their own,
				// and fragments that use such a prefix without bringing it (each is judged by what it says itself)
				s.Doc.AddMathFormula([]string{
					`<m:r xmlns:w14="http://schemas.microsoft.com/office/word/2010/wordml"><m:rPr><m:sty m:val="p"/></m:rPr><w14:x/><m:t>a</m:t></m:r>`,
					`<m:r><w14:x/><m:t>b</m:t></m:r>`,
					`<m:r xmlns:q="urn:q" q:a="1"><m:t>c</m:t></m:r>`,
					`<m:r q:a="1"><m:t>d</m:t></m:r>`,
					`<m:r><m:t xmlns:w14="urn:w14">e</m:t></m:r><m:r><w14:y/><m:t>f</m:t></m:r>`,
					`<m:r><m:t>g</m:t></m:r>`,
				}[s.R.Intn(6)], s.R.Bool())
				return
			}
			om, err := markdown.LaTeXToOMMLString([]string{"x^2", "\\frac{a}{b}", "\\sqrt{x}+\\alpha", "a_i^2 \\leq b", "\\sum_{i=0}^n i", "E = mc^2", "<&>"}[s.R.Intn(7)], s.R.Bool())
			if err == nil {
				s.Doc.AddMathFormula(om, s.R.Bool())
			}
		}},
		{"Styles", 4, func(s *Script) {
			r := s.R
			sm := s.Doc.GetStyleManager()
			if sm == nil {
				return
			}
			id := "Cust" + gen.Word(r, 1, 4)
			if s.Hostile && r.Chance(1, 4) {
				id = s.Str()
			}
			switch r.Intn(6) {
			case 4, 5:
				// change a registered style in place
				cands := []string{"Normal", "Heading1", "Heading2", "Quote", "Title", "CodeBlock", "Emphasis"}
				for _, st := range sm.GetAllStyles() {
					if st != nil && st.CustomStyle && strings.HasPrefix(st.StyleID, "Cust") {
						cands = append(cands, st.StyleID)
					}
				}
				sort.Strings(cands)
				sid := cands[r.Intn(len(cands))]
				st := sm.GetStyle(sid)
				if st == nil {
					return
				}
				s.serial++
				mark := fmt.Sprintf("%06X", 0xA00000+(s.serial*7919+r.Intn(64))%0x5FFFFF)
				if st.RunPr == nil {
					st.RunPr = &style.RunProperties{}
				}
				st.RunPr.Color = &style.Color{Val: mark}
				if s.StyleMarks == nil {
					s.StyleMarks = map[string]string{}
				}
				s.StyleMarks[sid] = mark
			case 0:
				delete(s.StyleMarks, id)
				// based on nothing, on a built-in style, on a style of the caller's own made earlier (which may be removed again
				// later), or on something the registry does not hold (an id from another document, a display name)
				bases := []string{"", "Normal", "Heading1", "", "Normal", "Heading1", "NoSuchBase", "heading 1"}
				for _, st := range sm.GetAllStyles() {
					if st != nil && st.CustomStyle && strings.HasPrefix(st.StyleID, "Cust") && st.StyleID != id {
						bases = append(bases, st.StyleID, st.StyleID)
					}
				}
				sort.Strings(bases)
				styleType, basedOn := []style.StyleType{"paragraph", "character", "table", "numbering", ""}[r.Intn(5)], bases[r.Intn(len(bases))]
				st := sm.CreateCustomStyle(id, s.Str(), styleType, basedOn)
				if s.ownStyles == nil {
					s.ownStyles = map[string]bool{}
				}
				if !sm.StyleExists(id) || st != nil {
					s.ownStyles[id] = st != nil
				}
				s.Log = append(s.Log, fmt.Sprintf("(CreateCustomStyle %q type=%q basedOn=%q)", id, styleType, basedOn))
				if st != nil && r.Bool() {
					if p := s.pickPara(); p != nil {
						p.SetStyle(id)
						if s.usedStyles == nil {
							s.usedStyles = map[string]bool{}
						}
						s.usedStyles[id] = true
					}
				}
			case 1:
				delete(s.StyleMarks, id)
				api := style.NewQuickStyleAPI(sm)
				api.CreateQuickStyle(style.QuickStyleConfig{ID: id, Name: s.Str(), Type: "paragraph", BasedOn: "Normal",
					ParagraphConfig: &style.QuickParagraphConfig{Alignment: "center", LineSpacing: 1.5, SpaceBefore: 6},
					RunConfig:       &style.QuickRunConfig{FontName: s.Str(), FontSize: 11, FontColor: "333333", Bold: r.Bool(), Italic: r.Bool()}})
			case 2:
				// only styles nothing else in the script uses (removing a style and then using it is caller misuse)
				if r.Bool() {
					// one of the caller's own styles that no paragraph uses (it may be the base of one that is used)
					var own []string
					for _, st := range sm.GetAllStyles() {
						// only styles this very script created: a style the document came with (from a template, from a file) may
						// be used by content the script does not know
						if st != nil && st.CustomStyle && s.ownStyles[st.StyleID] && !s.usedStyles[st.StyleID] {
							own = append(own, st.StyleID)
						}
					}
					if len(own) > 0 {
						sort.Strings(own)
						id = own[r.Intn(len(own))]
					}
				}
				if s.usedStyles[id] {
					return // the id collides with a style a paragraph of this script uses
				}
				delete(s.StyleMarks, id)
				victim := []string{"Subtitle", id, id}[r.Intn(3)]
				sm.RemoveStyle(victim)
				s.Log = append(s.Log, fmt.Sprintf("(RemoveStyle %q)", victim))
			case 3:
				sm.GetStyleWithInheritance([]string{"Heading1", "Normal", id, "missing"}[r.Intn(4)])
				sm.GetAllStyles()
			}
		}},
		{"Remove", 3, func(s *Script) {
			r := s.R
			switch r.Intn(3) {
			case 0:
				if p := s.pickPara(); p != nil {
					s.Doc.RemoveParagraph(p)
				}
			case 1:
				s.Doc.RemoveParagraphAt(r.Range(-1, 12))
			case 2:
				s.Doc.RemoveElementAt(r.Range(-1, 12))
			}
		}},
		{"Readers", 3, func(s *Script) {
			s.Doc.Body.GetParagraphs()
			s.Doc.Body.GetTables()
			s.Doc.GetPageSettings()
			if t := s.pickTable(); t != nil {
				row, col := s.cellOf(t)
				t.GetCellText(row, col)
				t.IsCellMerged(row, col)
				t.GetMergedCellInfo(row, col)
				t.GetCellFormat(row, col)
				t.GetRowHeight(row)
				t.GetTableLayout()
				t.GetTableBreakInfo()
				t.GetCellParagraphs(row, col)
				t.GetNestedTables(row, col)
				it := t.NewCellIterator()
				for i := 0; it.HasNext() && i < 200; i++ {
					if _, err := it.Next(); err != nil {
						break
					}
				}
				t.ForEach(func(int, int, *document.TableCell, string) error { return nil })
				t.FindCellsByText("a", false)
			}
		}},
		{"Markdown", 2, func(s *Script) {
			// the Markdown converter and exporter are part of the public surface: a converted document continues the
			// script, an export of the current document must not disturb it
			r := s.R
			if r.Bool() {
				core.Catch(func() {
					markdown.NewExporter(nil).ExportToString(s.Doc, nil)
				})
				return
			}
			if s.NoReopen {
				return
			}
			var sb strings.Builder
			for i, n := 0, r.Range(1, 6); i < n; i++ {
				sb.WriteString(r.Pick(mdSnippets))
			}
			opts := markdown.DefaultOptions()
			opts.EnableMath, opts.EnableTables, opts.GenerateTOC = r.Bool(), r.Bool(), r.Bool()
			d2, err := markdown.NewConverter(opts).ConvertString(sb.String(), nil)
			if err != nil || d2 == nil || d2.Body == nil {
				return
			}
			s.adopt(d2)
			s.StyleMarks = nil // a new document with its own registry
		}},
		{"Reopen", 3, func(s *Script) {
			if s.NoReopen {
				return
			}
			b, err := s.Doc.ToBytes()
			if err != nil {
				return
			}
			if s.R.Chance(1, 3) {
				// another producer loaded and saved the file in between: parts beside the main part come back in another legal spelling
				b, _ = gen.RespellPackage(s.R, b, "word/numbering.xml", "word/footnotes.xml", "word/endnotes.xml", "word/styles.xml", "word/settings.xml")
			}
			d2, err := document.OpenFromMemory(io.NopCloser(bytes.NewReader(b)))
			if err != nil || d2 == nil || d2.Body == nil {
				return
			}
			s.adopt(d2)
			s.Reopens++
		}},
		{"RenderAsTemplate", 2, func(s *Script) {
			if s.NoReopen {
				return
			}
			if s.R.Bool() {
				// placeholders of every kind, each in a paragraph of its own
				s.Doc.AddParagraph("{{x}} and {{name}}")
				if s.R.Bool() {
					s.Doc.AddParagraph("{{#image pic}}")
				}
				if s.R.Chance(1, 3) {
					s.Doc.AddParagraph("{{#image pic}}") // the same picture twice in one document
				}
				if s.R.Chance(1, 3) {
					s.Doc.AddParagraph("{{#each xs}}{{name}} {{/each}}")
				}
			}
			eng := document.NewTemplateEngine()
			if _, err := eng.LoadTemplateFromDocument("t", s.Doc); err != nil {
				return
			}
			data := document.NewTemplateData()
			for i := 0; i < 4; i++ {
				data.SetVariable([]string{"x", "name", "title", "v1", "date"}[s.R.Intn(5)], s.TemplateValue())
			}
			data.SetCondition("a", s.R.Bool())
			data.SetList("xs", []interface{}{s.Str(), map[string]interface{}{"name": s.Str()}})
			if s.R.Bool() {
				im := s.nextImage()
				data.SetImageFromData("pic", im.Data, s.imageConfig())
			}
			// a batch: the same data object serves several renders (one variable changed in between); the script goes on
			// with the first document, the others are kept for the case to save and inspect
			var first *document.Document
			for k, n := 0, []int{1, 1, 2, 3}[s.R.Intn(4)]; k < n; k++ {
				var d2 *document.Document
				var err error
				if s.R.Bool() {
					d2, err = eng.RenderTemplateToDocument("t", data)
				} else {
					d2, err = eng.RenderToDocument("t", data)
				}
				if err != nil || d2 == nil || d2.Body == nil {
					break
				}
				if first == nil {
					first = d2
				} else if len(s.Extra) < 6 {
					s.Extra = append(s.Extra, d2)
				}
				data.SetVariable("x", fmt.Sprintf("batch %d", k+1))
			}
			if first == nil {
				return
			}
			s.adopt(first)
			s.Renders++
		}},
	}
}

// adopt continues the script on another document (after reopen / render).
func (s *Script) adopt(d *document.Document) {
	s.Doc = d
	s.Tables = nil
	s.Paras = nil
	s.Images = nil
	for _, el := range d.Body.Elements {
		switch v := el.(type) {
		case *document.Paragraph:
			s.Paras = append(s.Paras, v)
		case *document.Table:
			s.Tables = append(s.Tables, v)
		}
	}
}

func tableHasMerges(t *document.Table) bool {
	n := -1
	for i := range t.Rows {
		if n >= 0 && len(t.Rows[i].Cells) != n {
			return true
		}
		n = len(t.Rows[i].Cells)
		for j := range t.Rows[i].Cells {
			p := t.Rows[i].Cells[j].Properties
			if p != nil && (p.GridSpan != nil || p.VMerge != nil) {
				return true
			}
		}
	}
	if t.Grid == nil || (n >= 0 && len(t.Grid.Cols) != n) {
		return true
	}
	return false
}

// Run executes n operations (stops at the first panic).
func (s *Script) Run(n int, only func(name string) bool) {
	total := 0
	var ops []op
	for _, o := range scriptOps {
		if only != nil && !only(o.name) {
			continue
		}
		if w, ok := s.Weights[o.name]; ok {
			o.w = w
		}
		if o.w <= 0 {
			continue
		}
		ops = append(ops, o)
		total += o.w
	}
	for i := 0; i < n && s.Panic == nil; i++ {
		x := s.R.Intn(total)
		var chosen op
		for _, o := range ops {
			if x < o.w {
				chosen = o
				break
			}
			x -= o.w
		}
		s.note(chosen.name)
		if c := core.Catch(func() { chosen.f(s) }); c != nil {
			c.Msg = chosen.name + ": " + c.Msg
			s.Panic = c
		}
	}
}

// Sig is a compact signature of what the script did.
func (s *Script) Sig() string {
	return strings.Join(s.Log, ",")
}
