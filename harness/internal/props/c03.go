package props

import (
	"bytes"
	"crypto/sha256"
	"fmt"
	"io"
	"os"
	"sort"
	"strings"

	"github.com/zerx-lab/wordZero/pkg/document"

	"verifharness/internal/canon"
	"verifharness/internal/core"
	"verifharness/internal/deep"
	"verifharness/internal/opc"
)

// mainCanon returns the canonical tree of the main part of a package.
func mainCanon(raw []byte) *canon.Node {
	p := opc.Read(raw)
	root, pr := p.Tree("word/document.xml")
	if root == nil || len(pr) > 0 {
		return nil
	}
	return canon.Build(root, nil)
}

// bodySummary is the public in-memory view of a document used for the model comparison.
func bodySummary(d *document.Document) (paras []string, tables []string, page string) {
	for _, el := range d.Body.Elements {
		switch v := el.(type) {
		case *document.MathParagraph:
			paras = append(paras, "") // a formula paragraph is a w:p without text runs
		case *document.Paragraph:
			var sb strings.Builder
			for _, r := range v.Runs {
				sb.WriteString(r.Text.Content)
			}
			paras = append(paras, sb.String())
		case *document.Table:
			var sb strings.Builder
			fmt.Fprintf(&sb, "%dx%d:", v.GetRowCount(), v.GetColumnCount())
			for i := range v.Rows {
				for j := range v.Rows[i].Cells {
					for _, p := range v.Rows[i].Cells[j].Paragraphs {
						for _, r := range p.Runs {
							sb.WriteString(r.Text.Content)
						}
						sb.WriteString("¶")
					}
					fmt.Fprintf(&sb, "[nested=%d]|", len(v.Rows[i].Cells[j].Tables))
				}
				sb.WriteString("/")
			}
			tables = append(tables, sb.String())
		}
	}
	page = deep.Dump(d.GetPageSettings())
	return
}

var c03Families = []string{"Paragraph.setters", "Table.content", "Table.structure", "Table.look", "AddImageFromData", "PageSettings", "Lists", "AddHeadingParagraph", "AddFormattedParagraph", "AddPageBreak", "Header/Footer", "Notes", "TOC", "AddMathFormula", "Properties", "Styles"}

func c03Case(c *core.Ctx) *core.Result {
	res := &core.Result{}
	r := caseRng(c)
	document.VerifResetGlobals()
	s := NewScript(r, false, c.WorkDir)
	s.NoReopen = true
	s.Weights = map[string]int{"Reopen": 0, "RenderAsTemplate": 0, "AddImageFromFile": 0}
	focus := ""
	if c.Case%3 == 0 {
		// covering part: one operation family dominates, so each setter family is exercised densely on its own
		focus = c03Families[(c.Case/3)%len(c03Families)]
		s.Weights[focus] = 60
		s.Weights["AddParagraph"] = 10
		s.Weights["AddTable"] = 8
	}
	s.Run(r.Range(4, tierN(c.Tier, 40, 100)), nil)
	if c.Case%400 == 7 && s.Panic == nil {
		// a large and very regular body (a main part of 1-3 MB that compresses at several hundred to one): thousands of
		// identical paragraphs, or a long table of identical cells
		if r.Bool() {
			for i, n := 0, r.Range(13000, 16000); i < n; i++ {
				s.Doc.AddParagraph("n/a")
			}
			res.Count("large_regular_bodies(paragraphs)", 1)
		} else if t, err := s.Doc.AddTable(&document.TableConfig{Rows: r.Range(330, 400), Cols: 20, Width: 9000}); err == nil && t != nil {
			for i := 0; i < t.GetRowCount(); i++ {
				for j := 0; j < 20; j++ {
					t.SetCellText(i, j, "n/a")
				}
			}
			res.Count("large_regular_bodies(table)", 1)
		}
	}
	if s.Panic != nil {
		res.Count("api_panics(document quarantined)", 1)
		return res
	}
	d := s.Doc
	note := "focus=" + focus + " ops: " + strings.Join(tail(s.Log, 25), " ")
	raw1, err := d.ToBytes()
	if err != nil {
		res.Count("tobytes_errors", 1)
		return res
	}
	// what ToBytes handed out belongs to the caller: every returned slice is fingerprinted on return and looked at again after
	// all later library calls of the case
	type handed struct {
		b   []byte
		sum [32]byte
		by  string
	}
	outs := []handed{{raw1, sha256.Sum256(raw1), "ToBytes#1"}}
	defer func() {
		for _, h := range outs {
			res.Count("returned_buffers_rechecked", 1)
			if sha256.Sum256(h.b) != h.sum {
				res.Add("returned-bytes-changed-by-later-calls", "the bytes returned by "+h.by+" were modified by later library calls (the result aliases library-owned memory)", note)
				break
			}
		}
	}()
	c1 := mainCanon(raw1)
	if c1 == nil {
		res.Count("main_part_unreadable(C01)", 1)
		return res
	}
	p1, t1, g1 := bodySummary(d)
	prev, prevCanon := raw1, c1
	for cycle := 1; cycle <= tierN(c.Tier, 3, 5); cycle++ {
		var d2 *document.Document
		var oerr error
		if cg := core.Catch(func() { d2, oerr = document.OpenFromMemory(io.NopCloser(bytes.NewReader(prev))) }); cg != nil {
			res.Add("open/"+cg.Key(), "opening the library's own output panicked: "+cg.Msg, cg.Stack)
			return res
		}
		if oerr != nil || d2 == nil || d2.Body == nil {
			res.Add("open/own-output-rejected", fmt.Sprintf("the library cannot open its own output: %v", oerr), note)
			return res
		}
		if cycle == 1 {
			// in-memory model of the reopened document
			p2, t2, g2 := bodySummary(d2)
			res.Count("models_compared", 1)
			if len(p1) != len(p2) {
				res.Add("model/paragraph-count", fmt.Sprintf("%d body paragraphs before saving, %d after opening", len(p1), len(p2)), note)
			} else {
				for i := range p1 {
					if p1[i] != p2[i] {
						res.Add("model/paragraph-text", fmt.Sprintf("body paragraph %d: text %q before saving, %q after opening", i, p1[i], p2[i]), note)
						break
					}
				}
			}
			if len(t1) != len(t2) {
				res.Add("model/table-count", fmt.Sprintf("%d body tables before saving, %d after opening", len(t1), len(t2)), note)
			} else {
				for i := range t1 {
					if t1[i] != t2[i] {
						res.Add("model/table-shape-or-cell-text", fmt.Sprintf("table %d: %q before saving, %q after opening", i, t1[i], t2[i]), note)
						break
					}
				}
			}
			if g1 != g2 {
				res.Add("model/page-settings", "GetPageSettings differs after opening", firstDiff(g1, g2), note)
			}
		}
		var raw2 []byte
		if cg := core.Catch(func() { raw2, oerr = d2.ToBytes() }); cg != nil {
			res.Add("resave/"+cg.Key(), "saving the reopened document panicked: "+cg.Msg, cg.Stack)
			return res
		}
		if oerr != nil {
			res.Add("resave/error", "saving the reopened document failed: "+oerr.Error(), note)
			return res
		}
		outs = append(outs, handed{raw2, sha256.Sum256(raw2), fmt.Sprintf("ToBytes#%d", cycle+1)})
		c2 := mainCanon(raw2)
		if c2 == nil {
			res.Add("resave/main-part-illformed", "the main part written after reopening is not well-formed", note)
			return res
		}
		res.Count("main_parts_diffed", 1)
		if c.Verbose { // replay: keep the two packages for inspection
			os.WriteFile(fmt.Sprintf("%s/../c03-case%d-cycle%d-before.docx", c.WorkDir, c.Case, cycle), prev, 0644)
			os.WriteFile(fmt.Sprintf("%s/../c03-case%d-cycle%d-after.docx", c.WorkDir, c.Case, cycle), raw2, 0644)
		}
		stage := "on-open"
		if cycle > 1 {
			stage = "unstable-cycle"
		}
		seen := map[string]bool{}
		for _, it := range canon.Diff(prevCanon, c2) {
			key := it.Kind + "-" + stage + "/" + it.Path
			if it.Attr != "" {
				key += "@" + it.Attr
			}
			if seen[key] {
				continue
			}
			seen[key] = true
			res.Add(key, fmt.Sprintf("cycle %d: %s %s %s: %q -> %q", cycle, it.Kind, it.Path, it.Attr, lastStr(it.A, 60), lastStr(it.B, 60)), note)
		}
		prev, prevCanon = raw2, c2
	}
	kinds := make([]string, 0, len(s.Kinds))
	for k := range s.Kinds {
		kinds = append(kinds, k)
	}
	sort.Strings(kinds)
	for _, k := range kinds {
		res.Count("family:"+k, int64(s.Kinds[k]))
	}
	res.Nontrivial = len(s.Kinds) >= 2 && res.Stats["main_parts_diffed"] > 0
	res.Sig = s.Sig()
	res.Sample = map[string]interface{}{"case": c.Case, "focus": focus, "ops": tail(s.Log, 30)}
	return res
}

func init() {
	core.Register(&core.Check{
		ID:    "C03",
		Level: "exploration",
		Rule: "API-built documents from the operation-script generator (XML-carriable strings with edge whitespace, tabs, newlines, non-ASCII); every third case lets one of 16 operation families dominate (paragraph setters, table content/structure/look, images, page settings, lists, headings, formatted paragraphs, page breaks, headers/footers, notes, TOC, formulas, properties, styles) so that each family is covered densely. " +
			"Oracle: (1) the public in-memory model after opening the saved document (paragraph texts, table shapes, cell texts, nested tables, page settings) equals the model before saving; (2) the main part written after reopening equals the first one canonically - every difference is reported with its element path (lost/gained/changed-on-open/<path>[@attr]); (3) the same for 2 (thorough 4) further open/save cycles (…-unstable-cycle/<path>). Non-trivial: >=2 operation families and >=1 main-part comparison; distinct = call sequence.",
		Cases:         func(t string) int { return tierN(t, 5000, 80000) },
		Run:           c03Case,
		Assume:        []string{"attribute order, prefixes, indentation, empty property containers, xml:space and map-ordered collections are normalised away", "parts other than the main part are the business of C04/C13"},
		CaseTimeoutS:  60,
		MinNontrivial: 300,
	})
}
