package props

import (
	"fmt"
	"reflect"
	"strings"

	"github.com/zerx-lab/wordZero/pkg/document"

	"verifharness/internal/core"
	"verifharness/internal/gen"
	"verifharness/internal/opc"
)

func sameElem(a, b interface{}) bool {
	va, vb := reflect.ValueOf(a), reflect.ValueOf(b)
	if !va.IsValid() || !vb.IsValid() {
		return !va.IsValid() && !vb.IsValid()
	}
	if va.Kind() == reflect.Ptr && vb.Kind() == reflect.Ptr {
		return va.Pointer() == vb.Pointer() && va.Type() == vb.Type()
	}
	return reflect.DeepEqual(a, b)
}

func isSect(e interface{}) bool { _, ok := e.(*document.SectionProperties); return ok }

func nonSect(xs []interface{}) []interface{} {
	var out []interface{}
	for _, e := range xs {
		if !isSect(e) {
			out = append(out, e)
		}
	}
	return out
}

func sameSeq(a, b []interface{}) bool {
	if len(a) != len(b) {
		return false
	}
	for i := range a {
		if !sameElem(a[i], b[i]) {
			return false
		}
	}
	return true
}

func kindOf(e interface{}) string {
	switch e.(type) {
	case *document.Paragraph:
		return "p"
	case *document.Table:
		return "tbl"
	case *document.SectionProperties:
		return "sectPr"
	case *document.BookmarkStart:
		return "bookmarkStart"
	case *document.BookmarkEnd:
		return "bookmarkEnd"
	case *document.SDT:
		return "sdt"
	case *document.MathParagraph:
		return "p"
	}
	return fmt.Sprintf("%T", e)
}

func paraText(p *document.Paragraph) string {
	var b strings.Builder
	for _, r := range p.Runs {
		b.WriteString(r.Text.Content)
	}
	return b.String()
}

func describe(xs []interface{}) string {
	var parts []string
	for _, e := range xs {
		k := kindOf(e)
		if p, ok := e.(*document.Paragraph); ok {
			t := paraText(p)
			if len(t) > 14 {
				t = t[:14]
			}
			k += "(" + t + ")"
		}
		parts = append(parts, k)
	}
	return strings.Join(parts, " ")
}

func c08Case(c *core.Ctx) *core.Result {
	res := &core.Result{}
	r := caseRng(c)
	document.VerifResetGlobals()
	d := document.New()
	other := document.New()
	foreignPara := other.AddParagraph("foreign")
	var handles []*document.Paragraph // every paragraph handle ever returned (some removed later)
	var cellParas []*document.Paragraph
	var tables []*document.Table
	serial := 0
	tag := func() string { serial++; return fmt.Sprintf("⟦c%d-%d⟧%s", c.Case, serial, gen.SafeString(r)) }
	var log []string
	kinds := map[string]bool{}
	sect := &c08Sect{hdr: map[string]bool{}, ftr: map[string]bool{}}
	explicitSect := false
	nOps := r.Range(5, tierN(c.Tier, 60, 200))
	fail := func(key, format string, a ...interface{}) {
		res.Add(key, fmt.Sprintf(format, a...), "ops: "+strings.Join(tail(log, 30), " "))
	}
	checkViews := func(op string) {
		var ps []*document.Paragraph
		var ts []*document.Table
		for _, e := range d.Body.Elements {
			switch v := e.(type) {
			case *document.Paragraph:
				ps = append(ps, v)
			case *document.Table:
				ts = append(ts, v)
			}
		}
		gp, gt := d.Body.GetParagraphs(), d.Body.GetTables()
		if len(gp) != len(ps) || len(gt) != len(ts) {
			fail("views/"+op+"/GetParagraphs-or-GetTables-disagree-with-Elements", "after %s GetParagraphs=%d (elements have %d), GetTables=%d (elements have %d)", op, len(gp), len(ps), len(gt), len(ts))
			return
		}
		for i := range ps {
			if gp[i] != ps[i] {
				fail("views/"+op+"/GetParagraphs-order", "after %s GetParagraphs()[%d] is not the %d-th paragraph element", op, i, i)
				return
			}
		}
		for i := range ts {
			if gt[i] != ts[i] {
				fail("views/"+op+"/GetTables-order", "after %s GetTables()[%d] is not the %d-th table element", op, i, i)
				return
			}
		}
	}
	for i := 0; i < nOps && len(res.Findings) == 0; i++ {
		before := append([]interface{}{}, d.Body.Elements...)
		var op string
		var cg *core.Caught
		mode := "" // append | settings | remove
		var removed bool
		var wantRemoved bool
		var wantAfter []interface{}
		var mustContain string
		var retHandle *document.Paragraph
		k := r.Intn(100)
		switch {
		case k < 40: // append family
			mode = "append"
			t := tag()
			mustContain = t
			switch r.Intn(15) {
			case 14:
				// a section-settings element of the caller's own (what Open leaves behind for a document with two sections): the body
				// then holds more than one such element; the settings ledger no longer says which one counts, the structural
				// clause (exactly one w:sectPr, last) still does
				op = "Body.AddElement(SectionProperties)"
				mustContain = ""
				mode = "append-section"
				explicitSect = true
				cg = core.Catch(func() {
					d.Body.AddElement(&document.SectionProperties{PageSize: &document.PageSizeXML{W: "11906", H: "16838"}})
				})
			case 0, 1, 2:
				op = "AddParagraph"
				cg = core.Catch(func() { retHandle = d.AddParagraph(t) })
			case 3:
				op = "AddFormattedParagraph"
				cg = core.Catch(func() { retHandle = d.AddFormattedParagraph(t, &document.TextFormat{Bold: true, FontSize: 12}) })
			case 4:
				op = "AddHeadingParagraph"
				cg = core.Catch(func() { retHandle = d.AddHeadingParagraph(t, r.Range(1, 9)) })
			case 5:
				op = "AddHeadingParagraphWithBookmark"
				cg = core.Catch(func() {
					retHandle = d.AddHeadingParagraphWithBookmark(t, r.Range(1, 9), []string{"", "bm" + fmt.Sprint(serial)}[r.Intn(2)])
				})
			case 6:
				op = "AddHeadingWithBookmark"
				cg = core.Catch(func() {
					retHandle = d.AddHeadingWithBookmark(t, r.Range(1, 9), []string{"", "hb" + fmt.Sprint(serial)}[r.Intn(2)])
				})
			case 7:
				op = "AddTable"
				mustContain = ""
				cg = core.Catch(func() {
					tb, err := d.AddTable(&document.TableConfig{Rows: r.Range(1, 3), Cols: r.Range(1, 3), Width: 5000})
					if err == nil && tb != nil {
						tables = append(tables, tb)
					} else {
						mode = "maybe-noop"
					}
				})
			case 8:
				op = "AddPageBreak"
				mustContain = ""
				cg = core.Catch(func() { d.AddPageBreak() })
			case 9:
				op = "AddImageFromData"
				mustContain = ""
				im := gen.RandomImage(r, serial)
				cg = core.Catch(func() {
					// every placement and wrapping an ImageConfig can ask for: an image is new content at the end whatever it looks like
					var cfg *document.ImageConfig
					if r.Chance(2, 3) {
						cfg = &document.ImageConfig{
							Position:  []document.ImagePosition{document.ImagePositionInline, document.ImagePositionFloatLeft, document.ImagePositionFloatRight}[r.Intn(3)],
							WrapText:  []document.ImageWrapText{document.ImageWrapNone, document.ImageWrapSquare, document.ImageWrapTight, document.ImageWrapTopAndBottom}[r.Intn(4)],
							Alignment: []document.AlignmentType{document.AlignLeft, document.AlignCenter, document.AlignRight}[r.Intn(3)],
						}
					}
					if _, err := d.AddImageFromData(im.Data, "i.png", imgFormat(im.Format), im.W, im.H, cfg); err != nil {
						mode = "maybe-noop"
					}
				})
			case 10:
				op = "AddListItem"
				cg = core.Catch(func() {
					retHandle = d.AddListItem(t, &document.ListConfig{Type: document.ListTypeBullet, BulletSymbol: document.BulletTypeDot})
				})
			case 11:
				op = "AddFootnote"
				cg = core.Catch(func() {
					if err := d.AddFootnote(t, "note "+t); err != nil {
						mode = "maybe-noop"
					}
				})
			case 12:
				op = "AddMathFormula"
				mustContain = ""
				cg = core.Catch(func() { d.AddMathFormula("<m:r><m:t>x</m:t></m:r>", r.Bool()) })
			case 13:
				op = "GenerateTOC"
				mustContain = ""
				cg = core.Catch(func() {
					if err := d.GenerateTOC(&document.TOCConfig{Title: "T", MaxLevel: r.Range(1, 9)}); err != nil {
						mode = "maybe-noop"
					}
				})
			}
			if retHandle != nil {
				handles = append(handles, retHandle)
			}
		case k < 55: // section-creating calls
			mode = "settings"
			switch r.Intn(8) {
			case 0:
				op = "SetPageMargins"
				cg = core.Catch(func() {
					if d.SetPageMargins(20, 20, 20, 20) == nil {
						sect.margins = true
					}
				})
			case 1:
				op = "SetPageOrientation"
				cg = core.Catch(func() {
					if d.SetPageOrientation(document.OrientationLandscape) == nil {
						sect.landscape = true
					}
				})
			case 2:
				op = "SetPageSize"
				cg = core.Catch(func() {
					if d.SetPageSize(document.PageSizeA5) == nil {
						sect.a5 = true
					}
				})
			case 3:
				op = "AddHeader"
				ht := hfTypes[r.Intn(3)]
				cg = core.Catch(func() {
					if d.AddHeader(ht, "hdr") == nil {
						sect.hdr[string(ht)] = true
					}
				})
			case 4:
				op = "AddFooterWithPageNumber"
				ft := hfTypes[r.Intn(3)]
				cg = core.Catch(func() {
					if d.AddFooterWithPageNumber(ft, "ftr", true) == nil {
						sect.ftr[string(ft)] = true
					}
				})
			case 5:
				op = "SetDifferentFirstPage"
				cg = core.Catch(func() { d.SetDifferentFirstPage(r.Bool()) })
			case 6:
				op = "SetDocGrid"
				cg = core.Catch(func() { d.SetDocGrid(document.DocGridLines, 312, 0) })
			case 7:
				op = "SetPageMargins(invalid)"
				cg = core.Catch(func() { d.SetPageMargins(-1, 0, 0, 0) })
			}
		case k < 70:
			mode = "remove"
			op = "RemoveParagraph"
			var h *document.Paragraph
			switch r.Intn(6) {
			case 0, 1, 2:
				if len(handles) > 0 {
					h = handles[r.Intn(len(handles))]
				}
			case 3:
				h = foreignPara
				op = "RemoveParagraph(foreign)"
			case 4:
				if len(cellParas) > 0 {
					h = cellParas[r.Intn(len(cellParas))]
					op = "RemoveParagraph(cell)"
				} else if len(tables) > 0 {
					t := tables[r.Intn(len(tables))]
					if p, err := t.AddCellParagraph(0, 0, "cellpara"); err == nil && p != nil {
						cellParas = append(cellParas, p)
						h = p
						before = append([]interface{}{}, d.Body.Elements...)
						op = "RemoveParagraph(cell)"
					}
				}
			case 5:
				h = nil
				op = "RemoveParagraph(nil)"
			}
			idx := -1
			for j, e := range before {
				if p, ok := e.(*document.Paragraph); ok && p == h && h != nil {
					idx = j
					break
				}
			}
			wantRemoved = idx >= 0
			if wantRemoved {
				wantAfter = append(append([]interface{}{}, before[:idx]...), before[idx+1:]...)
			} else {
				wantAfter = before
			}
			cg = core.Catch(func() { removed = d.RemoveParagraph(h) })
		case k < 85:
			mode = "remove"
			np := 0
			for _, e := range before {
				if _, ok := e.(*document.Paragraph); ok {
					np++
				}
			}
			pi := r.Range(-2, np+1)
			op = fmt.Sprintf("RemoveParagraphAt(%s)", idxClass(pi, np))
			idx, cnt := -1, 0
			for j, e := range before {
				if _, ok := e.(*document.Paragraph); ok {
					if cnt == pi {
						idx = j
					}
					cnt++
				}
			}
			wantRemoved = idx >= 0
			if wantRemoved {
				wantAfter = append(append([]interface{}{}, before[:idx]...), before[idx+1:]...)
			} else {
				wantAfter = before
			}
			cg = core.Catch(func() { removed = d.RemoveParagraphAt(pi) })
		default:
			mode = "remove"
			ei := r.Range(-2, len(before)+1)
			op = fmt.Sprintf("RemoveElementAt(%s)", idxClass(ei, len(before)))
			wantRemoved = ei >= 0 && ei < len(before)
			if wantRemoved {
				wantAfter = append(append([]interface{}{}, before[:ei]...), before[ei+1:]...)
			} else {
				wantAfter = before
			}
			cg = core.Catch(func() { removed = d.RemoveElementAt(ei) })
		}
		opName := op
		if j := strings.Index(opName, "("); j > 0 && !strings.HasPrefix(opName, "RemoveParagraph(") && !strings.HasPrefix(opName, "SetPageMargins(") {
			opName = op
		}
		log = append(log, op)
		kinds[op] = true
		res.Count("calls", 1)
		if cg != nil {
			fail(op+"/"+cg.Key(), "%s panicked: %s", op, cg.Msg)
			break
		}
		after := d.Body.Elements
		if countSect(after) < countSect(before) {
			// the section element itself was removed by index: its settings are gone with it, legitimately
			sect = &c08Sect{hdr: map[string]bool{}, ftr: map[string]bool{}}
		}
		switch mode {
		case "append-section":
			// the caller's own section element goes to the end of the list, everything else stays
			if len(after) != len(before)+1 || !sameSeq(before, after[:len(before)]) || !isSect(after[len(after)-1]) {
				fail(op+"/append-disturbs-existing-elements", "%s: body is [%s], expected [%s] followed by the new section element", op, describe(after), describe(before))
			}
		case "append", "maybe-noop":
			bn, an := nonSect(before), nonSect(after)
			if mode == "maybe-noop" && sameSeq(before, after) {
				break
			}
			if len(an) <= len(bn) || !sameSeq(bn, an[:len(bn)]) {
				fail(op+"/append-disturbs-existing-elements", "%s: elements before [%s] are not a prefix of the elements after [%s]", op, describe(bn), describe(an))
				break
			}
			newEls := an[len(bn):]
			for _, ne := range newEls {
				for _, be := range before {
					if sameElem(ne, be) {
						fail(op+"/append-reuses-existing-element", "%s: an element already in the body appears again as new content", op)
					}
				}
			}
			if retHandle != nil {
				found := false
				for _, ne := range newEls {
					if p, ok := ne.(*document.Paragraph); ok && p == retHandle {
						found = true
					}
				}
				if !found {
					fail(op+"/returned-handle-not-in-body", "%s: the returned paragraph is not among the appended elements", op)
				}
			}
			if mustContain != "" {
				found := false
				for _, ne := range newEls {
					if p, ok := ne.(*document.Paragraph); ok && strings.Contains(paraText(p), mustContain) {
						found = true
					}
				}
				if !found {
					fail(op+"/appended-text-missing", "%s: no appended paragraph carries the text %q", op, mustContain)
				}
			}
			// section elements are untouched by appends
			if countSect(before) != countSect(after) {
				fail(op+"/append-changes-section-elements", "%s changed the number of section-properties elements %d -> %d", op, countSect(before), countSect(after))
			} else if len(after) < len(before) || !sameSeq(before, after[:len(before)]) {
				// new content goes to the END of the list: every element already there (section settings included, wherever
				// they sit) keeps its index, or an index a caller holds for RemoveElementAt now names another element
				fail(op+"/append-moves-existing-elements", "%s: the elements before [%s] are not the first elements after [%s]", op, describe(before), describe(after))
			}
			res.Count("appends_checked", 1)
		case "settings":
			if !sameSeq(nonSect(before), nonSect(after)) {
				fail(op+"/settings-call-disturbs-content", "%s changed the content elements: before [%s] after [%s]", op, describe(nonSect(before)), describe(nonSect(after)))
			}
			if countSect(after) < countSect(before) || countSect(after) > countSect(before)+1 {
				fail(op+"/settings-call-section-count", "%s: section-properties elements %d -> %d", op, countSect(before), countSect(after))
			} else if !(sameSeq(before, after) || (len(after) == len(before)+1 && sameSeq(before, after[:len(before)]) && isSect(after[len(after)-1]))) {
				// a page-setting or header/footer call is neither an append nor a removal: it either finds the section settings
				// where they are or creates them where the list ends; an element that changes its index here makes the element index
				// a caller holds name another element
				fail(op+"/settings-call-moves-elements", "%s: body was [%s] and is [%s]", op, describe(before), describe(after))
			}
			res.Count("settings_calls_checked", 1)
		case "remove":
			cls := removeClass(op)
			if removed != wantRemoved {
				fail(cls+"/wrong-return-value", "%s returned %v, expected %v (body: [%s])", op, removed, wantRemoved, describe(before))
			}
			if !sameSeq(wantAfter, after) {
				what := "removed-wrong-element"
				if !wantRemoved {
					what = "failed-removal-changed-body"
				}
				fail(cls+"/"+what, "%s: body is [%s], expected [%s]", op, describe(after), describe(wantAfter))
			}
			res.Count("removals_checked", 1)
		}
		// the accessor views are read at random points only: a monitor that read them after every call would itself keep any
		// memoised view fresh and hide one that goes stale between two reads of a caller
		if r.Chance(1, 3) {
			checkViews(op)
		}
		// save at random points and at the end
		if len(res.Findings) == 0 && (i == nOps-1 || r.Chance(1, 12)) {
			led := sect
			if explicitSect {
				led = nil
			}
			c08CheckSaved(res, d, fail, led)
		}
	}
	res.Nontrivial = len(kinds) >= 3 && res.Stats["calls"] >= 5
	res.Sig = strings.Join(log, ",")
	res.Sample = map[string]interface{}{"case": c.Case, "ops": tail(log, 40)}
	return res
}

func countSect(xs []interface{}) int {
	n := 0
	for _, e := range xs {
		if isSect(e) {
			n++
		}
	}
	return n
}

func idxClass(i, n int) string {
	switch {
	case i < 0:
		return "negative"
	case i >= n:
		return "beyond"
	case i == 0:
		return "first"
	case i == n-1:
		return "last"
	}
	return "inner"
}

// c08CheckSectContent: "the section settings exactly once" means the one serialised w:sectPr carries everything
// the settings calls established, wherever the in-memory element(s) sit.
func c08CheckSectContent(res *core.Result, sp *opc.Node, led *c08Sect, fail func(key, format string, a ...interface{})) {
	if led == nil {
		return
	}
	res.Count("saved_section_settings_compared", 1)
	near := func(s string, want float64) bool { v := atof(s); return v > want-2 && v < want+2 }
	if led.margins {
		m := sp.Child(opc.NsW, "pgMar")
		if m == nil || !near(m.AttrW("top"), 1134) || !near(m.AttrW("left"), 1134) {
			fail("saved/section-settings-lost/pgMar", "margins were set to 20 mm but the saved w:sectPr has %v", m != nil)
		}
	}
	sz := sp.Child(opc.NsW, "pgSz")
	if led.landscape && (sz == nil || sz.AttrW("orient") != "landscape") {
		fail("saved/section-settings-lost/orient", "landscape was set but the saved w:pgSz does not say so")
	}
	if led.a5 {
		ok := sz != nil && ((near(sz.AttrW("w"), 8391) && near(sz.AttrW("h"), 11906)) || (near(sz.AttrW("h"), 8391) && near(sz.AttrW("w"), 11906)))
		if !ok {
			fail("saved/section-settings-lost/pgSz", "page size A5 was set but the saved w:pgSz differs")
		}
	}
	for _, kind := range []string{"default", "first", "even"} {
		for _, hf := range []struct {
			el  string
			set map[string]bool
		}{{"headerReference", led.hdr}, {"footerReference", led.ftr}} {
			if !hf.set[kind] {
				continue
			}
			found := false
			for _, ref := range sp.ChildrenOf(opc.NsW, hf.el) {
				if ref.AttrW("type") == kind {
					found = true
				}
			}
			if !found {
				fail("saved/section-settings-lost/"+hf.el, "a %s of kind %s was added but the saved w:sectPr has no such reference", hf.el, kind)
			}
		}
	}
}

func removeClass(op string) string {
	if i := strings.Index(op, "("); i > 0 {
		return op[:i] + "(" + op[i+1:len(op)-1] + ")"
	}
	return op
}

// c08CheckSaved compares the children of w:body in the saved main part with the in-memory list.
// c08Sect is the ledger of section settings the script made successfully (fixed values, see the settings calls).
type c08Sect struct {
	margins, landscape, a5 bool
	hdr, ftr               map[string]bool
}

func c08CheckSaved(res *core.Result, d *document.Document, fail func(key, format string, a ...interface{}), led *c08Sect) {
	var b []byte
	var err error
	if cg := core.Catch(func() { b, err = d.ToBytes() }); cg != nil {
		fail("ToBytes/"+cg.Key(), "ToBytes panicked: %s", cg.Msg)
		return
	}
	if err != nil {
		res.Count("tobytes_errors", 1)
		return
	}
	p := opc.Read(b)
	root, pr := p.Tree("word/document.xml")
	if root == nil || len(pr) > 0 {
		res.Count("saved_main_part_unreadable(C01)", 1)
		return
	}
	body := root.Child(opc.NsW, "body")
	if body == nil {
		fail("saved/no-body", "saved main part has no w:body")
		return
	}
	res.Count("saved_bodies_compared", 1)
	els := nonSect(d.Body.Elements)
	var kids []*opc.Node
	sect := 0
	for i, k := range body.Children {
		if k.Is(opc.NsW, "sectPr") {
			sect++
			c08CheckSectContent(res, k, led, fail)
			if i != len(body.Children)-1 {
				fail("saved/sectPr-not-last", "w:sectPr is child %d of %d of w:body", i+1, len(body.Children))
			}
			continue
		}
		kids = append(kids, k)
	}
	want := 0
	if countSect(d.Body.Elements) > 0 {
		want = 1
	}
	if sect != want {
		fail(fmt.Sprintf("saved/sectPr-count=%d-want=%d", min2(sect, 2), want), "saved body has %d w:sectPr, in-memory body has %d section elements", sect, countSect(d.Body.Elements))
	}
	if len(kids) != len(els) {
		fail("saved/child-count-differs", "saved body has %d content children, in-memory body has %d elements [%s]", len(kids), len(els), describe(els))
		return
	}
	for i := range els {
		k := kindOf(els[i])
		if kids[i].Local != k {
			fail("saved/child-kind-order", "saved child %d is w:%s, element %d is %s", i, kids[i].Local, i, k)
			return
		}
		if pp, ok := els[i].(*document.Paragraph); ok {
			var sb strings.Builder
			for _, t := range kids[i].Find(opc.NsW, "t") {
				sb.WriteString(t.Text)
			}
			if want := paraText(pp); strings.Contains(want, "⟦") && !strings.Contains(sb.String(), want[strings.Index(want, "⟦"):strings.Index(want, "⟧")+len("⟧")]) {
				fail("saved/paragraph-text-order", "saved child %d does not carry the tag of element %d (%q vs %q)", i, i, sb.String(), want)
				return
			}
		}
	}
}

func init() {
	core.Register(&core.Check{
		ID:    "C08",
		Level: "exploration",
		Rule: "scripts of append calls (AddParagraph/Formatted/Heading(+bookmark)/Table/PageBreak/Image/ListItem/Footnote/MathFormula/GenerateTOC, every text carrying a unique tag), removals by handle (live, already removed, foreign document, cell paragraph, nil), by paragraph index and element index in {-2..len+1}, " +
			"interleaved with page-setting and header/footer calls; after EVERY call the body is compared with the reference list (prefix preserved + new suffix for appends, exactly-one-removed or unchanged+false for removals, content untouched for settings calls), and at random points GetParagraphs/GetTables are compared with the element list and the children of w:body in the saved main part are compared (same order, exactly one w:sectPr, last, iff section settings exist). " +
			"Non-trivial: >=5 calls of >=3 kinds; distinct = distinct call sequence.",
		Cases:         func(t string) int { return tierN(t, 8000, 60000) },
		Run:           c08Case,
		Assume:        []string{"the in-memory position of the SectionProperties element is not constrained, only its serialised position"},
		CaseTimeoutS:  60,
		MinNontrivial: 100,
	})
}
