package props

import (
	"bytes"
	"fmt"
	"io"
	"os"
	"os/exec"
	"path/filepath"
	"strings"

	"github.com/zerx-lab/wordZero/pkg/document"

	"verifharness/internal/core"
	"verifharness/internal/gen"
	"verifharness/internal/opc"
)

// openForeign generates a foreign package, checks it with the monitor itself
// (a rejected input would be a harness bug) and opens it with the library.
func openForeign(c *core.Ctx, res *core.Result, opts gen.ForeignOpts) (*gen.Foreign, []byte, *document.Document) {
	r := caseRng(c)
	f := gen.MakeForeign(r, opts)
	raw := f.Bytes(r)
	p := opc.Read(raw)
	var own []opc.Problem
	own = append(own, p.CheckC01()...)
	own = append(own, p.CheckC02()...)
	own = append(own, p.CheckC13()...)
	if len(own) > 0 {
		res.Inconcl = fmt.Sprintf("harness: generated foreign package is rejected by the monitor itself: %+v", own[0])
		return nil, nil, nil
	}
	var d *document.Document
	var err error
	if cg := core.Catch(func() { d, err = document.OpenFromMemory(io.NopCloser(bytes.NewReader(raw))) }); cg != nil {
		res.Count("open_panics", 1)
		return f, raw, nil
	}
	if err != nil || d == nil || d.Body == nil {
		res.Count("open_errors", 1)
		return f, raw, nil
	}
	return f, raw, d
}

// foreignExtendCase opens a foreign package and extends it with relationship / id creating calls.
func foreignExtendCase(c *core.Ctx, rules func(*opc.Package) []opc.Problem) *core.Result {
	res := &core.Result{}
	document.VerifResetGlobals()
	f, _, d := openForeign(c, res, gen.ForeignOpts{})
	if d == nil {
		return res
	}
	r := caseRng(c)
	r.U64()
	s := NewScript(r, false, c.WorkDir)
	s.adopt(d)
	s.Weights = map[string]int{"AddImageFromData": 12, "AddImageFromFile": 4, "Header/Footer": 14, "Notes": 8, "Lists": 10, "Properties": 4, "Table.content": 8, "AddTable": 5, "AddHeadingParagraph": 6,
		"Styles": 4, "TOC": 3, "PageSettings": 3, "Reopen": 3, "RenderAsTemplate": 1, "Remove": 0, "Table.structure": 1, "Table.look": 3}
	s.Run(r.Range(0, tierN(c.Tier, 14, 30)), nil)
	if s.Panic != nil {
		res.Count("api_panics(document quarantined)", 1)
		return res
	}
	pkgs, _ := savedPackages(res, s.Doc, c.WorkDir, fmt.Sprintf("f%d", c.Case))
	note := "foreign features: " + strings.Join(f.Features, ",") + " ; ops: " + strings.Join(tail(s.Log, 25), " ")
	for _, p := range pkgs {
		probs := rules(p)
		for i := range probs {
			probs[i].Key += "/opened-foreign" // the start state is part of the diagnosis
		}
		addProblems(res, probs, note)
		statsOf(res, p)
	}
	res.Count("foreign_packages_opened", 1)
	res.Count("api_calls", int64(len(s.Log)))
	res.Nontrivial = res.Stats["parts_parsed"] > 0
	res.Sig = "foreign:" + strings.Join(f.Features, ",") + "|" + s.Sig()
	res.Sample = map[string]interface{}{"case": c.Case, "foreign_features": f.Features, "foreign_rel_ids": f.RelIDs, "ops": tail(s.Log, 30)}
	return res
}

// renderSiblingsCase: one base document with k relationships is loaded as a template and rendered several times; the
// renders (and the base) are then extended alternately with relationship-creating calls and saved only at the end,
// so that state shared between a template and its renders (or between two renders) shows up as a rule violation in
// one of the saved packages.
func renderSiblingsCase(c *core.Ctx, rules func(*opc.Package) []opc.Problem, weights map[string]int) *core.Result {
	res := &core.Result{}
	document.VerifResetGlobals()
	r := caseRng(c)
	base := NewScript(r, false, c.WorkDir)
	base.NoReopen = true
	base.Weights = map[string]int{"AddImageFromData": 20, "Header/Footer": 10, "AddParagraph": 6, "AddTable": 3, "Table.content": 6, "Reopen": 0, "RenderAsTemplate": 0, "AddImageFromFile": 2, "Notes": 0, "Lists": 0}
	base.Run(r.Range(0, 18), nil)
	if base.Panic != nil {
		res.Count("api_panics(document quarantined)", 1)
		return res
	}
	base.Doc.AddParagraph("{{x}} {{name}}")
	if r.Chance(1, 3) { // the template document may itself come from a file
		if b, err := base.Doc.ToBytes(); err == nil {
			if d2, err := document.OpenFromMemory(io.NopCloser(bytes.NewReader(b))); err == nil && d2 != nil && d2.Body != nil {
				base.adopt(d2)
			}
		}
	}
	eng := document.NewTemplateEngine()
	if _, err := eng.LoadTemplateFromDocument("base", base.Doc); err != nil {
		res.Count("template_load_errors", 1)
		return res
	}
	n := r.Range(2, 3)
	scripts := []*Script{}
	for i := 0; i < n; i++ {
		data := document.NewTemplateData()
		data.SetVariable("x", fmt.Sprintf("render%d", i))
		data.SetVariable("name", gen.SafeString(r))
		var d *document.Document
		var err error
		if cg := core.Catch(func() {
			if r.Bool() {
				d, err = eng.RenderTemplateToDocument("base", data)
			} else {
				d, err = eng.RenderToDocument("base", data)
			}
		}); cg != nil || err != nil || d == nil || d.Body == nil {
			res.Count("render_failures", 1)
			return res
		}
		s := NewScript(r, false, c.WorkDir)
		s.NoReopen = true
		s.NoLists = false // list and note registries are per document
		s.adopt(d)
		s.serial = 100 * (i + 1) // distinct pictures per render
		s.Weights = weights
		scripts = append(scripts, s)
	}
	rounds := r.Range(1, 6)
	for k := 0; k < rounds; k++ {
		for _, s := range scripts {
			s.Run(1, nil)
			if s.Panic != nil {
				res.Count("api_panics(document quarantined)", 1)
				return res
			}
		}
	}
	var sig []string
	for i, s := range append(scripts, base) {
		pkgs, _ := savedPackages(res, s.Doc, c.WorkDir, fmt.Sprintf("rs%d-%d", c.Case, i))
		who := fmt.Sprintf("render %d", i)
		if s == base {
			who = "template base document"
		}
		for _, p := range pkgs {
			probs := rules(p)
			for j := range probs {
				probs[j].Key += "/render-siblings"
			}
			addProblems(res, probs, who+" ; ops: "+strings.Join(tail(s.Log, 20), " "))
			statsOf(res, p)
		}
		sig = append(sig, s.Sig())
	}
	res.Count("render_sibling_groups", 1)
	res.Nontrivial = res.Stats["parts_parsed"] > 0 && rounds > 0
	res.Sig = "siblings:" + strings.Join(sig, "|")
	res.Sample = map[string]interface{}{"case": c.Case, "renders": n, "base_ops": tail(base.Log, 12), "render0_ops": tail(scripts[0].Log, 8), "render1_ops": tail(scripts[1].Log, 8)}
	return res
}

// repoProgramsCase runs the repository's own programs - its test suite and every example under examples/ - in a
// scratch copy of the tree under test (outside /repo and /verif, removed afterwards) and applies the package rules to
// every .docx they leave behind: an offline check of the event log "packages the library wrote for realistic callers".
func repoProgramsCase(c *core.Ctx, rules func(*opc.Package) []opc.Problem) *core.Result {
	res := &core.Result{}
	src := os.Getenv("VERIF_REPO_DIR")
	if src == "" {
		src = "/repo"
	}
	scratch := fmt.Sprintf("/var/tmp/vf-progs-%d-%d", os.Getpid(), c.Case)
	os.RemoveAll(scratch)
	defer os.RemoveAll(scratch)
	if out, err := exec.Command("rsync", "-a", "--exclude", ".git", "--exclude", "*.docx", src+"/", scratch+"/").CombinedOutput(); err != nil {
		res.Inconcl = "cannot copy the tree: " + err.Error() + " " + lastStr(string(out), 200)
		return res
	}
	env := append(os.Environ(), "GOFLAGS=-mod=mod", "GOPROXY=off", "GOSUMDB=off", "GOTOOLCHAIN=local")
	run := func(dir string, timeout string, args ...string) {
		cmd := exec.Command("timeout", append([]string{"-s", "KILL", timeout}, args...)...)
		cmd.Dir = dir
		cmd.Env = env
		cmd.Run()
	}
	run(scratch, "600", "go", "test", "-vet=off", "-count=1", "./pkg/...", "./test/...")
	res.Count("repo_test_suite_runs", 1)
	ex, _ := os.ReadDir(filepath.Join(scratch, "examples"))
	for _, e := range ex {
		if e.IsDir() {
			run(filepath.Join(scratch, "examples", e.Name()), "120", "go", "run", ".")
			res.Count("repo_example_programs_run", 1)
		}
	}
	filepath.Walk(scratch, func(path string, info os.FileInfo, err error) error {
		if err != nil || info.IsDir() || !strings.HasSuffix(strings.ToLower(path), ".docx") {
			return nil
		}
		b, rerr := os.ReadFile(path)
		if rerr != nil || len(b) == 0 {
			return nil
		}
		p := opc.Read(b)
		if len(p.ZipProbs) > 0 && len(p.Parts) == 0 {
			res.Count("repo_program_outputs_not_zip(skipped)", 1) // test fixtures for error paths
			return nil
		}
		probs := rules(p)
		for i := range probs {
			probs[i].Key += "/repo-programs"
		}
		rel, _ := filepath.Rel(scratch, path)
		addProblems(res, probs, "written by the repository's own program: "+rel)
		statsOf(res, p)
		res.Count("repo_program_packages_checked", 1)
		return nil
	})
	res.Nontrivial = res.Stats["repo_program_packages_checked"] > 0
	res.Sig = "repo-programs"
	res.Sample = map[string]interface{}{"case": c.Case, "kind": "packages written by the repository's tests and examples", "packages": res.Stats["repo_program_packages_checked"]}
	return res
}
