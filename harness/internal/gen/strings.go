// Package gen holds the PRNG-driven generators shared by the checks.
package gen

import (
	"strings"

	"verifharness/internal/rng"
)

// Hostile is the fixed hostile string corpus (§3.7 of DESIGN.md).
var Hostile = []string{
	"", " ", "   ", "\t", "\n", "\r\n", " lead", "trail ", " both ", "a\tb", "line1\nline2", "a\r\nb",
	"<", ">", "&", "\"", "'", "<b>bold</b>", "a & b < c > d", "]]>", "<!-- c -->", "<?xml version=\"1.0\"?>", "&amp;", "&#x0;", "&lt;tag&gt;",
	"</w:t></w:r>", "<w:p/>", "\x00", "\x01", "\x08", "\x0b", "\x0c", "\x1f", "\x7f", "a\x00b", "ctl\x1bseq",
	"\uFFFE", "\uFFFF", "\xff\xfe", "\xc3\x28", "\xed\xa0\x80", "\xef\xbb\xbfBOM", "\u200f\u202eRTL", "e\u0301\u0323", "中文段落", "日本語テキスト", "😀🎉", "𝔘𝔫𝔦",
	"{{x}}", "{{#each xs}}", "{{/if}}", "{{else}}", "{{#if a}}b{{/if}}", "{{this}}", "{{", "}}", "{{#image pic}}", "{{extends \"base\"}}", "{{#block \"b\"}}x{{/block}}",
	"# heading", "*em* **strong** `code`", "[a](b)", "| a | b |", "> quote", "$x^2$", "$$y$$", "~~s~~", "- [ ] task",
	"../", "a/b.png", "x.", ".png", "x.JPG", "x.tar.gz", "noext", "image0.png", "word/media/image1.png", "C:\\dir\\f.png", "名前.png",
	"[IMAGE:x]", "%s%d%n", "'; DROP TABLE", "rId1", "Heading1", "0", "-1",
	// text that means something to a regexp replacement template, a format string or an HTML-minded unescaper
	"$1", "${1}x", "$name costs $100", "$0 $$", "\\1", "&nbsp;", "?a=1&copy=2&reg=3", "a&lt b", "&#12345678;",
}

// XMLSafe are corpus strings every XML 1.0 document can carry unchanged.
var XMLSafe = []string{
	" lead", "trail ", " both ", "a\tb", "line1\nline2", "<", ">", "&", "\"", "'", "<b>bold</b>", "a & b < c > d", "]]>", "<!-- c -->",
	"&amp;", "&lt;tag&gt;", "</w:t></w:r>", "e\u0301\u0323", "中文段落", "日本語テキスト", "😀🎉", "𝔘𝔫𝔦", "plain text", "Hello, World", "x", "a  b   c",
	"\u200f\u202eRTL", "tab\there", "ümlaut ñ ß", "(1) [2] {3}",
	"$1", "${1}x", "$name costs $100", "$0 $$", "\\1", "%s %d", "&nbsp;", "?a=1&copy=2&reg=3", "a&lt b",
}

const alphaPlain = "abcdefghijklmnopqrstuvwxyzABCDEFGHIJKLMNOPQRSTUVWXYZ0123456789"

// Word returns a plain alphanumeric word of length [lo,hi].
func Word(r *rng.R, lo, hi int) string {
	n := r.Range(lo, hi)
	var b strings.Builder
	for i := 0; i < n; i++ {
		b.WriteByte(alphaPlain[r.Intn(len(alphaPlain))])
	}
	return b.String()
}

// Ident returns a \w+ identifier starting with a letter.
func Ident(r *rng.R, lo, hi int) string {
	n := r.Range(lo, hi)
	var b strings.Builder
	b.WriteByte(alphaPlain[r.Intn(52)])
	for i := 1; i < n; i++ {
		b.WriteByte(alphaPlain[r.Intn(len(alphaPlain))])
	}
	return b.String()
}

// HostileString draws from the corpus, sometimes concatenating entries and random runes.
func HostileString(r *rng.R) string {
	switch r.Intn(10) {
	case 0, 1, 2, 3, 4:
		return r.Pick(Hostile)
	case 5, 6:
		return r.Pick(Hostile) + Word(r, 0, 6) + r.Pick(Hostile)
	case 7:
		return Word(r, 1, 12)
	case 8:
		return RandomRunes(r, r.Range(1, 24))
	default:
		if r.Chance(1, 40) {
			return strings.Repeat(r.Pick(Hostile)+"x", 64*1024/8)
		}
		return Sentence(r)
	}
}

// SafeString draws a string XML can carry (used where equality of text is part of an oracle).
func SafeString(r *rng.R) string {
	switch r.Intn(6) {
	case 0, 1:
		return r.Pick(XMLSafe)
	case 2:
		return r.Pick(XMLSafe) + Word(r, 1, 5)
	case 3:
		return Sentence(r)
	default:
		return Word(r, 1, 10)
	}
}

var runeAlphabets = [][2]rune{{0x20, 0x7e}, {0x00, 0x1f}, {0xa0, 0x17f}, {0x4e00, 0x4e80}, {0x1f600, 0x1f640}, {0x0590, 0x05ff}, {0x0300, 0x036f}, {0xfff0, 0xffff}}

func RandomRunes(r *rng.R, n int) string {
	var b strings.Builder
	for i := 0; i < n; i++ {
		a := runeAlphabets[r.Intn(len(runeAlphabets))]
		b.WriteRune(a[0] + rune(r.Intn(int(a[1]-a[0])+1)))
	}
	return b.String()
}

var words = []string{"alpha", "beta", "gamma", "delta", "report", "table", "value", "note", "Word", "docx", "zero", "total", "年度", "報告", "été", "naïve"}

func Sentence(r *rng.R) string {
	n := r.Range(1, 8)
	parts := make([]string, n)
	for i := range parts {
		parts[i] = r.Pick(words)
	}
	return strings.Join(parts, " ")
}

// RandomHex returns n hexadecimal digits (text that compresses to about half its size, not further).
func RandomHex(r *rng.R, n int) string {
	const hex = "0123456789abcdef"
	b := make([]byte, n)
	for i := range b {
		b[i] = hex[r.Intn(16)]
	}
	return string(b)
}
