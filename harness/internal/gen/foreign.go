package gen

import (
	"archive/zip"
	"bytes"
	"fmt"
	"io"
	"regexp"
	"sort"
	"strings"
	"unicode/utf16"

	"verifharness/internal/rng"
)

// Foreign is a WordprocessingML package written by the harness' own writer
// ("produced by another application").
type Foreign struct {
	Order        []string
	Parts        map[string][]byte
	MainText     string   // concatenation of every w:t of the main part in document order
	Features     []string // what was put in (for samples / keys)
	RelIDs       []string // relationship ids used in word/_rels/document.xml.rels
	Media        []string
	StyleIDs     []string // style ids defined in styles.xml
	HeadingStyle string
	Wrapped      []WrappedText // run text that sits inside a wrapper construct (hyperlink, smart tag, ...)
	RunTexts     []string      // the text of every run of the main part, in document order (each carries a unique token)
}

// WrappedText records which construct carries a piece of run text.
type WrappedText struct{ Kind, Text string }

func (f *Foreign) put(name string, data string) {
	if _, ok := f.Parts[name]; !ok {
		f.Order = append(f.Order, name)
	}
	f.Parts[name] = []byte(data)
}

// Bytes zips the parts (stored or deflated at random when r != nil).
func (f *Foreign) Bytes(r *rng.R) []byte {
	var buf bytes.Buffer
	zw := zip.NewWriter(&buf)
	for _, n := range f.Order {
		m := zip.Deflate
		if r != nil && r.Chance(1, 4) {
			m = zip.Store
		}
		w, _ := zw.CreateHeader(&zip.FileHeader{Name: n, Method: m})
		w.Write(f.Parts[n])
	}
	zw.Close()
	return buf.Bytes()
}

func esc(s string) string {
	var b strings.Builder
	for _, c := range s {
		switch c {
		case '<':
			b.WriteString("&lt;")
		case '>':
			b.WriteString("&gt;")
		case '&':
			b.WriteString("&amp;")
		case '"':
			b.WriteString("&quot;")
		case '\t':
			b.WriteString("&#9;")
		case '\n':
			b.WriteString("&#10;")
		case '\r':
			b.WriteString("&#13;")
		default:
			b.WriteRune(c)
		}
	}
	return b.String()
}

const (
	nsW   = "http://schemas.openxmlformats.org/wordprocessingml/2006/main"
	nsR   = "http://schemas.openxmlformats.org/officeDocument/2006/relationships"
	relNS = "http://schemas.openxmlformats.org/package/2006/relationships"
	relT  = "http://schemas.openxmlformats.org/officeDocument/2006/relationships/"
)

// MinimalPackage returns a tiny valid package; mut may edit the parts (as strings) before zipping.
func MinimalPackage(mut func(m map[string]string)) []byte {
	m := map[string]string{
		"[Content_Types].xml":          `<?xml version="1.0" encoding="UTF-8" standalone="yes"?><Types xmlns="http://schemas.openxmlformats.org/package/2006/content-types"><Default Extension="rels" ContentType="application/vnd.openxmlformats-package.relationships+xml"/><Default Extension="xml" ContentType="application/xml"/><Override PartName="/word/document.xml" ContentType="application/vnd.openxmlformats-officedocument.wordprocessingml.document.main+xml"/><Override PartName="/word/styles.xml" ContentType="application/vnd.openxmlformats-officedocument.wordprocessingml.styles+xml"/></Types>`,
		"_rels/.rels":                  `<?xml version="1.0" encoding="UTF-8" standalone="yes"?><Relationships xmlns="` + relNS + `"><Relationship Id="rId1" Type="` + relT + `officeDocument" Target="word/document.xml"/></Relationships>`,
		"word/document.xml":            `<?xml version="1.0" encoding="UTF-8" standalone="yes"?><w:document xmlns:w="` + nsW + `"><w:body><w:p><w:r><w:t>hello</w:t></w:r></w:p></w:body></w:document>`,
		"word/styles.xml":              `<?xml version="1.0" encoding="UTF-8" standalone="yes"?><w:styles xmlns:w="` + nsW + `"><w:style w:type="paragraph" w:styleId="Normal"><w:name w:val="Normal"/></w:style></w:styles>`,
		"word/_rels/document.xml.rels": `<?xml version="1.0" encoding="UTF-8" standalone="yes"?><Relationships xmlns="` + relNS + `"><Relationship Id="rId1" Type="` + relT + `styles" Target="styles.xml"/></Relationships>`,
	}
	if mut != nil {
		mut(m)
	}
	names := make([]string, 0, len(m))
	for n := range m {
		names = append(names, n)
	}
	sort.Strings(names)
	var buf bytes.Buffer
	zw := zip.NewWriter(&buf)
	for _, n := range names {
		w, _ := zw.Create(n)
		w.Write([]byte(m[n]))
	}
	zw.Close()
	return buf.Bytes()
}

var (
	reEndTag    = regexp.MustCompile(`</[A-Za-z0-9:]+>`)
	reStartTag  = regexp.MustCompile(`<([A-Za-z0-9]+:[A-Za-z0-9]+|[A-Za-z][A-Za-z0-9]*)>`)
	reDqAttr    = regexp.MustCompile(` ([A-Za-z0-9:]+)="([^"'<>]*)"`)
	reEmptyElem = regexp.MustCompile(`<([A-Za-z0-9:]+)((?: [A-Za-z0-9:]+=(?:"[^"<>]*"|'[^'<>]*'))*)/>`)
)

// Respell rewrites markup into another legal spelling of the same document: white space before the closing
// bracket of tags, attribute values in single quotes, empty-element tags as start/end pairs. Character data is
// not touched (the generators escape quotes and angle brackets in text, so the patterns only see tags).
func Respell(r *rng.R, x string) string {
	head := ""
	if strings.HasPrefix(x, "<?xml") {
		if i := strings.Index(x, "?>"); i > 0 {
			head, x = x[:i+2], x[i+2:]
		}
	}
	mode := r.Range(1, 7)
	if mode&1 != 0 {
		ws := []string{" ", "\n", "\t", " \r\n "}[r.Intn(4)]
		x = reEndTag.ReplaceAllStringFunc(x, func(m string) string { return m[:len(m)-1] + ws + ">" })
		if r.Bool() {
			x = reStartTag.ReplaceAllString(x, "<$1"+ws+">")
		}
	}
	if mode&2 != 0 {
		x = reDqAttr.ReplaceAllString(x, " $1='$2'")
	}
	if mode&4 != 0 {
		x = reEmptyElem.ReplaceAllString(x, "<$1$2></$1>")
	}
	return head + x
}

// ForeignOpts tunes the generator.
type ForeignOpts struct {
	Simple bool // only constructs whose text the library's reader is known to keep (plain paragraphs/tables)
}

type fw struct {
	corpTbl string
	r       *rng.R
	f       *Foreign
	p       string // element prefix for the w namespace ("" = default namespace)
	text    strings.Builder
	wrap    string // construct the runs currently written sit in
	block   string // block-level construct the paragraphs currently written sit in
	ids     map[string]bool
	docRels []string // serialized Relationship elements of the main part
	serial  int
	opts    ForeignOpts
}

func (w *fw) el(name string) string {
	if w.p == "" {
		return name
	}
	return w.p + ":" + name
}

// at renders a w-namespace attribute (attributes always need a prefix).
func (w *fw) at(name, val string) string {
	ap := w.p
	if ap == "" {
		ap = "w"
	}
	return fmt.Sprintf(` %s:%s="%s"`, ap, name, esc(val))
}

func (w *fw) newID() string {
	for {
		var id string
		switch w.r.Intn(5) {
		case 0:
			id = fmt.Sprintf("rId%d", w.r.Range(1, 60))
		case 1:
			id = fmt.Sprintf("rId%d", w.r.Range(2, 9))
		case 2:
			id = fmt.Sprintf("R%x", w.r.U64()&0xffffff)
		case 3:
			id = fmt.Sprintf("rIdA%dB", w.r.Range(0, 99))
		default:
			id = fmt.Sprintf("id%d", w.r.Range(100, 999))
		}
		if !w.ids[id] {
			w.ids[id] = true
			w.f.RelIDs = append(w.f.RelIDs, id)
			return id
		}
	}
}

func (w *fw) rel(typ, target string, external bool) string {
	id := w.newID()
	mode := ""
	if external {
		mode = ` TargetMode="External"`
	}
	if !external && !strings.HasPrefix(target, "../") && (typ == "image" || typ == "header" || typ == "footer" || typ == "theme" || typ == "oleObject" || typ == "comments" || typ == "styles" || typ == "numbering" || typ == "footnotes" || typ == "settings") && w.r.Chance(1, 6) {
		// the target spelt as an absolute part name: legal in OPC, written by several producers
		target = "/word/" + target
		w.feature("absolute-relationship-target:" + typ)
	} else if !external && !w.opts.Simple && !strings.HasPrefix(target, "../") && !strings.HasPrefix(target, "/") && w.r.Chance(1, 8) {
		// the target spelt with dot segments: a legal relative reference to the same part
		target = []string{"./" + target, "../word/" + target, "x/../" + target}[w.r.Intn(3)]
		w.feature("dot-segments-in-relationship-target:" + typ)
	}
	w.docRels = append(w.docRels, fmt.Sprintf(`<Relationship Id="%s" Type="%s%s" Target="%s"%s/>`, id, relT, typ, esc(target), mode))
	return id
}

func (w *fw) word() string {
	w.serial++
	s := fmt.Sprintf("t%d%s", w.serial, Word(w.r, 1, 6))
	switch w.r.Intn(8) {
	case 0:
		s = " " + s
	case 1:
		s += " "
	case 2:
		s += "&<>\""
	case 3:
		s += "中文"
	}
	return s
}

func (w *fw) run(text string) string {
	w.text.WriteString(text)
	w.f.RunTexts = append(w.f.RunTexts, text)
	if w.block != "" { // a lost block takes everything inside with it
		w.f.Wrapped = append(w.f.Wrapped, WrappedText{w.block, text})
	} else if w.wrap != "" {
		w.f.Wrapped = append(w.f.Wrapped, WrappedText{w.wrap, text})
	}
	rpr := ""
	if w.r.Chance(1, 3) {
		rpr = "<" + w.el("rPr") + "><" + w.el("b") + "/><" + w.el("color") + w.at("val", "FF0000") + "/></" + w.el("rPr") + ">"
	}
	sp := ""
	if strings.HasPrefix(text, " ") || strings.HasSuffix(text, " ") || w.r.Chance(1, 3) {
		sp = ` xml:space="preserve"`
	}
	out := "<" + w.el("r") + ">" + rpr + "<" + w.el("t") + sp + ">" + esc(text) + "</" + w.el("t") + "></" + w.el("r") + ">"
	if !w.opts.Simple && len(text) >= 2 && w.r.Chance(1, 8) {
		// the same text carried by several w:t of one run with a tab in between (text + tab + text is one run in many producers)
		w.feature("several-t-in-one-run")
		cut := 1 + w.r.Intn(len(text)-1)
		for cut < len(text) && text[cut]&0xC0 == 0x80 {
			cut++ // not inside a UTF-8 sequence
		}
		if cut < len(text) {
			out = "<" + w.el("r") + ">" + rpr + "<" + w.el("t") + ` xml:space="preserve">` + esc(text[:cut]) + "</" + w.el("t") + "><" + w.el("tab") + "/><" + w.el("t") + ` xml:space="preserve">` + esc(text[cut:]) + "</" + w.el("t") + "></" + w.el("r") + ">"
		}
	}
	if !w.opts.Simple && w.r.Chance(1, 8) {
		// a run of its own that carries only the blank between two words
		w.feature("blank-only-run")
		w.text.WriteString(" ")
		w.f.RunTexts = append(w.f.RunTexts, " ")
		if w.block != "" {
			w.f.Wrapped = append(w.f.Wrapped, WrappedText{w.block, " "})
		} else if w.wrap != "" {
			w.f.Wrapped = append(w.f.Wrapped, WrappedText{w.wrap, " "})
		}
		out += "<" + w.el("r") + "><" + w.el("t") + ` xml:space="preserve"> </` + w.el("t") + "></" + w.el("r") + ">"
	}
	return out
}

func (w *fw) feature(s string) { w.f.Features = append(w.f.Features, s) }

func (w *fw) paragraph(depth int) string {
	var b strings.Builder
	b.WriteString("<" + w.el("p") + ">")
	if w.r.Chance(1, 3) {
		b.WriteString("<" + w.el("pPr") + ">")
		if w.r.Bool() && len(w.f.StyleIDs) > 0 {
			b.WriteString("<" + w.el("pStyle") + w.at("val", w.f.StyleIDs[w.r.Intn(len(w.f.StyleIDs))]) + "/>")
		}
		b.WriteString("<" + w.el("jc") + w.at("val", "center") + "/></" + w.el("pPr") + ">")
	}
	n := w.r.Range(0, 4)
	for i := 0; i < n; i++ {
		k := w.r.Intn(17)
		if w.opts.Simple {
			k = 0
		}
		switch k {
		default:
			b.WriteString(w.run(w.word()))
		case 12:
			// further inline containers whose runs are ordinary visible text
			name := []string{"customXml", "dir", "bdo", "moveTo"}[w.r.Intn(4)]
			w.feature(name)
			w.wrap = name
			attrs := map[string]string{"customXml": w.at("uri", "urn:x") + w.at("element", "e"), "dir": w.at("val", "rtl"), "bdo": w.at("val", "ltr"), "moveTo": w.at("id", "9") + w.at("author", "A")}[name]
			b.WriteString(`<` + w.el(name) + attrs + `>` + w.run(w.word()) + "</" + w.el(name) + ">")
			w.wrap = ""
		case 13:
			// tracked deletion / move source: the text is carried by w:delText and is not visible text; it must not become visible
			name := []string{"del", "moveFrom"}[w.r.Intn(2)]
			w.feature(name)
			b.WriteString(`<` + w.el(name) + w.at("id", "8") + w.at("author", "A") + `><` + w.el("r") + `><` + w.el("delText") + `>gone` + Word(w.r, 1, 4) + `</` + w.el("delText") + `></` + w.el("r") + `></` + w.el(name) + ">")
		case 5:
			w.feature("hyperlink-external")
			id := w.rel("hyperlink", "http://example.com/?a=1&b="+Word(w.r, 1, 4), true)
			w.wrap = "hyperlink"
			b.WriteString(`<` + w.el("hyperlink") + ` r:id="` + id + `">` + w.run(w.word()) + w.run(w.word()) + "</" + w.el("hyperlink") + ">")
			w.wrap = ""
		case 6:
			w.feature("hyperlink-anchor")
			w.wrap = "hyperlink"
			b.WriteString(`<` + w.el("hyperlink") + w.at("anchor", "bm1") + `>` + w.run(w.word()) + "</" + w.el("hyperlink") + ">")
			w.wrap = ""
		case 7:
			w.feature("smartTag")
			w.wrap = "smartTag"
			b.WriteString(`<` + w.el("smartTag") + w.at("uri", "urn:x") + w.at("element", "place") + `>` + w.run(w.word()) + "</" + w.el("smartTag") + ">")
			w.wrap = ""
		case 8:
			w.feature("ins")
			w.wrap = "ins"
			b.WriteString(`<` + w.el("ins") + w.at("id", "7") + w.at("author", "A") + `>` + w.run(w.word()) + "</" + w.el("ins") + ">")
			w.wrap = ""
		case 9:
			w.feature("sdt-inline")
			w.wrap = "sdt-inline"
			b.WriteString(`<` + w.el("sdt") + `><` + w.el("sdtPr") + `/><` + w.el("sdtContent") + `>` + w.run(w.word()) + "</" + w.el("sdtContent") + "></" + w.el("sdt") + ">")
			w.wrap = ""
		case 10:
			w.feature("fldSimple")
			w.wrap = "fldSimple"
			b.WriteString(`<` + w.el("fldSimple") + w.at("instr", " AUTHOR ") + `>` + w.run(w.word()) + "</" + w.el("fldSimple") + ">")
			w.wrap = ""
		case 14:
			// phonetic guide: both the base text and the guide text are runs inside a run
			w.feature("ruby")
			w.wrap = "ruby"
			b.WriteString("<" + w.el("r") + "><" + w.el("ruby") + "><" + w.el("rubyPr") + "/><" + w.el("rt") + ">" + w.run(w.word()) + "</" + w.el("rt") + "><" + w.el("rubyBase") + ">" + w.run(w.word()) + "</" + w.el("rubyBase") + "></" + w.el("ruby") + "></" + w.el("r") + ">")
			w.wrap = ""
		case 11:
			w.feature("tab-br")
			b.WriteString("<" + w.el("r") + "><" + w.el("tab") + "/><" + w.el("br") + "/></" + w.el("r") + ">")
		}
	}
	b.WriteString("</" + w.el("p") + ">")
	return b.String()
}

func (w *fw) table(depth int) string {
	var b strings.Builder
	rows, cols := w.r.Range(1, 3), w.r.Range(1, 3)
	tblStyle := ""
	if !w.opts.Simple && w.r.Chance(1, 3) {
		tblStyle = "<" + w.el("tblStyle") + w.at("val", []string{"TableGrid", w.corpTbl}[w.r.Intn(2)]) + "/>"
		w.feature("table-with-own-style")
	}
	b.WriteString("<" + w.el("tbl") + "><" + w.el("tblPr") + ">" + tblStyle + "<" + w.el("tblW") + w.at("w", "5000") + w.at("type", "dxa") + "/></" + w.el("tblPr") + ">")
	if w.r.Bool() {
		b.WriteString("<" + w.el("tblGrid") + ">")
		for j := 0; j < cols; j++ {
			b.WriteString("<" + w.el("gridCol") + w.at("w", "1000") + "/>")
		}
		b.WriteString("</" + w.el("tblGrid") + ">")
	} else {
		w.feature("table-without-grid")
	}
	// content controls (and custom XML markup) may wrap a whole row, a whole cell, or the blocks inside a cell
	wrapOpen := func(kind string) (string, string) {
		if kind == "customXml" {
			return "<" + w.el("customXml") + w.at("uri", "urn:x") + w.at("element", "e") + ">", "</" + w.el("customXml") + ">"
		}
		return "<" + w.el("sdt") + "><" + w.el("sdtPr") + "/><" + w.el("sdtContent") + ">", "</" + w.el("sdtContent") + "></" + w.el("sdt") + ">"
	}
	for i := 0; i < rows; i++ {
		rowOpen, rowClose := "", ""
		savedBlock := w.block
		if !w.opts.Simple && w.block == "" && w.r.Chance(1, 10) {
			kind := []string{"sdt", "customXml"}[w.r.Intn(2)]
			rowOpen, rowClose = wrapOpen(kind)
			w.block = kind + "-around-row"
			w.feature(w.block)
		}
		b.WriteString(rowOpen + "<" + w.el("tr") + ">")
		for j := 0; j < cols; j++ {
			cellOpen, cellClose := "", ""
			cellBlock := w.block
			if !w.opts.Simple && w.block == "" && w.r.Chance(1, 10) {
				kind := []string{"sdt", "customXml"}[w.r.Intn(2)]
				cellOpen, cellClose = wrapOpen(kind)
				w.block = kind + "-around-cell"
				w.feature(w.block)
			}
			b.WriteString(cellOpen + "<" + w.el("tc") + "><" + w.el("tcPr") + "><" + w.el("tcW") + w.at("w", "1000") + w.at("type", "dxa") + "/></" + w.el("tcPr") + ">")
			if !w.opts.Simple && w.block == "" && w.r.Chance(1, 10) {
				kind := []string{"sdt", "customXml"}[w.r.Intn(2)]
				o, cl := wrapOpen(kind)
				w.block = kind + "-in-cell"
				w.feature(w.block)
				b.WriteString(o + w.paragraph(depth+1) + cl)
				w.block = ""
				if w.r.Bool() {
					b.WriteString(w.paragraph(depth + 1)) // a cell ends in a paragraph of its own
				}
			} else {
				b.WriteString(w.paragraph(depth + 1))
			}
			if depth < 1 && w.r.Chance(1, 8) && !w.opts.Simple {
				w.feature("nested-table")
				b.WriteString(w.table(depth + 1))
				b.WriteString(w.paragraph(depth + 1))
			}
			b.WriteString("</" + w.el("tc") + ">" + cellClose)
			w.block = cellBlock
		}
		b.WriteString("</" + w.el("tr") + ">" + rowClose)
		w.block = savedBlock
	}
	b.WriteString("</" + w.el("tbl") + ">")
	return b.String()
}

var foreignMediaNames = []string{"image1.png", "Image 01.PNG", "picture.jpeg", "image0.png", "image7", "image-1.png", "image99999999999999999999.png", "image2.jpg", "image3.emf", "IMAGE5.png", "image4.gif", "图片1.png", "Bild ü.jpeg"}

// MakeForeign builds a package.
var reAnyTag = regexp.MustCompile(`<[^<>]*>`)

// RespellPart writes one XML part in another legal spelling of the same infoset: a byte order mark in front, the
// WordprocessingML vocabulary under another prefix, white space inside the root's end tag, a comment or white space
// behind the root element, no XML declaration. It returns the new text and the name of what was done ("" = nothing).
func RespellPart(r *rng.R, x, name string) (string, string) {
	short := strings.TrimSuffix(name[strings.LastIndex(name, "/")+1:], ".xml")
	const decl = `<?xml version="1.0" encoding="UTF-8" standalone="yes"?>`
	switch r.Intn(6) {
	case 0:
		if !strings.HasPrefix(x, "\xef\xbb\xbf") {
			return "\xef\xbb\xbf" + x, "byte-order-mark:" + short
		}
	case 1:
		if strings.Contains(x, `xmlns:w="`+nsW+`"`) && !strings.Contains(x, "n0:") {
			rep := strings.NewReplacer("<w:", "<n0:", "</w:", "</n0:", " w:", " n0:", "xmlns:w=", "xmlns:n0=")
			return reAnyTag.ReplaceAllStringFunc(x, func(tag string) string {
				if strings.HasPrefix(tag, "<?") || strings.HasPrefix(tag, "<!") {
					return tag
				}
				return rep.Replace(tag)
			}), "part-under-prefix-n0:" + short
		}
	case 2:
		t := strings.TrimRight(x, " \t\r\n")
		if i := strings.LastIndex(t, "</"); i > 0 && strings.HasSuffix(t, ">") && !strings.ContainsAny(t[i:len(t)-1], " \t\n>") {
			return t[:len(t)-1] + []string{" ", "\n", "\t "}[r.Intn(3)] + ">" + x[len(t):], "white-space-in-root-end-tag:" + short
		}
	case 3:
		return x + []string{"\n<!-- written by </exporter> 2.1 -->", "<!-- </w:" + short + "> -->\n", "\n<!-- a/b -->"}[r.Intn(3)], "comment-behind-root:" + short
	case 4:
		return x + []string{"\n", "\r\n\r\n", "  \n\t"}[r.Intn(3)], "white-space-behind-root:" + short
	case 5:
		if strings.HasPrefix(x, decl) {
			return strings.TrimLeft(strings.TrimPrefix(x, decl), "\r\n"), "no-xml-declaration:" + short
		}
	}
	return x, ""
}

// RespellPackage re-writes a package the way another producer would after loading and saving it unchanged: the parts
// named (when present) each get one other spelling with probability 1/2, everything else is copied. It returns the
// new package and what was done.
func RespellPackage(r *rng.R, raw []byte, names ...string) ([]byte, []string) {
	zr, err := zip.NewReader(bytes.NewReader(raw), int64(len(raw)))
	if err != nil {
		return raw, nil
	}
	want := map[string]bool{}
	for _, n := range names {
		want[n] = true
	}
	var feats []string
	var buf bytes.Buffer
	zw := zip.NewWriter(&buf)
	for _, zf := range zr.File {
		rc, err := zf.Open()
		if err != nil {
			return raw, nil
		}
		b, err := io.ReadAll(rc)
		rc.Close()
		if err != nil {
			return raw, nil
		}
		if want[zf.Name] && r.Bool() {
			x, feat := RespellPart(r, string(b), zf.Name)
			if feat != "" {
				b = []byte(x)
				feats = append(feats, feat)
			}
		}
		w, _ := zw.Create(zf.Name)
		w.Write(b)
	}
	zw.Close()
	return buf.Bytes(), feats
}

func MakeForeign(r *rng.R, opts ForeignOpts) *Foreign {
	f := &Foreign{Parts: map[string][]byte{}}
	w := &fw{r: r, f: f, ids: map[string]bool{}, opts: opts}
	switch r.Intn(4) {
	case 0, 1:
		w.p = "w"
	case 2:
		w.p = "ns0"
		w.feature("prefix-ns0")
	case 3:
		w.p = ""
		w.feature("default-namespace")
	}
	if opts.Simple {
		w.p = "w"
	}
	hdr := `<?xml version="1.0" encoding="UTF-8" standalone="yes"?>` + "\n"
	ct := []string{`<Default Extension="rels" ContentType="application/vnd.openxmlformats-package.relationships+xml"/>`, `<Default Extension="xml" ContentType="application/xml"/>`}
	addDefault := map[string]bool{}
	ovr := func(part, typ string) {
		ct = append(ct, fmt.Sprintf(`<Override PartName="/%s" ContentType="%s"/>`, part, typ))
	}
	ovr("word/document.xml", "application/vnd.openxmlformats-officedocument.wordprocessingml.document.main+xml")

	// styles (relationship id is deliberately not always rId1)
	styleRelFirst := r.Bool()
	if !styleRelFirst {
		// something else grabs rId1
		w.ids["rId1"] = true
		f.RelIDs = append(f.RelIDs, "rId1")
		w.docRels = append(w.docRels, `<Relationship Id="rId1" Type="`+relT+`fontTable" Target="fontTable.xml"/>`)
		f.put("word/fontTable.xml", hdr+`<w:fonts xmlns:w="`+nsW+`"><w:font w:name="Arial"/></w:fonts>`)
		ovr("word/fontTable.xml", "application/vnd.openxmlformats-officedocument.wordprocessingml.fontTable+xml")
		w.feature("rId1-is-not-styles")
	}
	f.HeadingStyle = []string{"Heading1", "berschrift1", "Titre1"}[r.Intn(3)]
	// a table style of the producer's own, unknown to any other application; style ids are free text
	w.corpTbl = []string{"CorpTbl", "CorpTbl", "Corp Tbl", "Ledger(2024", "T*", "表样式", "a.b[1]", "x\\y", "100%s", "$1"}[r.Intn(10)]
	if opts.Simple {
		w.corpTbl = "CorpTbl"
	}
	f.StyleIDs = []string{"Normal", f.HeadingStyle, "MyStyle", "TableGrid", "a0", w.corpTbl}
	var sb strings.Builder
	sb.WriteString(hdr + `<w:styles xmlns:w="` + nsW + `"><w:docDefaults><w:rPrDefault><w:rPr><w:sz w:val="21"/></w:rPr></w:rPrDefault></w:docDefaults>`)
	for i, id := range f.StyleIDs {
		typ := "paragraph"
		if id == "TableGrid" || id == w.corpTbl {
			typ = "table" // CorpTbl: a table style of the producer's own, unknown to any other application
		}
		if id == "a0" {
			typ = "character"
		}
		def := ""
		if i == 0 {
			def = ` w:default="1"`
		}
		sb.WriteString(fmt.Sprintf(`<w:style w:type="%s"%s w:styleId="%s"><w:name w:val="%s"/></w:style>`, typ, def, id, id))
	}
	// the styles of table-of-contents entries (only the entries of a table of contents use them, see "toc-paragraphs")
	sb.WriteString(`<w:style w:type="paragraph" w:styleId="TOC1"><w:name w:val="toc 1"/></w:style><w:style w:type="paragraph" w:styleId="TOC2"><w:name w:val="toc 2"/></w:style>`)
	sb.WriteString(`</w:styles>`)
	f.put("word/styles.xml", sb.String())
	ovr("word/styles.xml", "application/vnd.openxmlformats-officedocument.wordprocessingml.styles+xml")
	switch {
	case !styleRelFirst && !opts.Simple && r.Chance(1, 4):
		// the styles part is there but the main part has no (recognisable) relationship to it
		if r.Bool() {
			w.feature("styles-part-without-relationship")
		} else {
			w.feature("styles-relationship-strict-type")
			id := w.newID()
			w.docRels = append(w.docRels, `<Relationship Id="`+id+`" Type="http://purl.oclc.org/ooxml/officeDocument/relationships/styles" Target="styles.xml"/>`)
		}
	case styleRelFirst:
		w.ids["rId1"] = true
		f.RelIDs = append(f.RelIDs, "rId1")
		w.docRels = append(w.docRels, `<Relationship Id="rId1" Type="`+relT+`styles" Target="styles.xml"/>`)
	default:
		w.rel("styles", "styles.xml", false)
	}
	if !opts.Simple && r.Chance(1, 3) {
		// producers commonly declare image defaults that no part uses yet
		ext := []string{"jpg", "JPG", "jpeg", "png", "gif"}[r.Intn(5)]
		if !addDefault[strings.ToLower(ext)] {
			addDefault[strings.ToLower(ext)] = true
			typ := map[string]string{"png": "image/png", "jpeg": "image/jpeg", "jpg": "image/jpeg", "gif": "image/gif"}[strings.ToLower(ext)]
			ct = append(ct, fmt.Sprintf(`<Default Extension="%s" ContentType="%s"/>`, ext, typ))
			w.feature("unused-default:" + ext)
		}
	}

	// optional extra parts
	if r.Bool() {
		w.feature("theme")
		f.put("word/theme/theme1.xml", hdr+`<a:theme xmlns:a="http://schemas.openxmlformats.org/drawingml/2006/main" name="Office"><a:themeElements/></a:theme>`)
		ovr("word/theme/theme1.xml", "application/vnd.openxmlformats-officedocument.theme+xml")
		w.rel("theme", "theme/theme1.xml", false)
	}
	if r.Bool() {
		w.feature("settings")
		f.put("word/settings.xml", hdr+`<w:settings xmlns:w="`+nsW+`"><w:zoom w:percent="120"/><w:defaultTabStop w:val="420"/><w:compat/></w:settings>`)
		ovr("word/settings.xml", "application/vnd.openxmlformats-officedocument.wordprocessingml.settings+xml")
		w.rel("settings", "settings.xml", false)
	}
	if r.Chance(1, 3) {
		w.feature("webSettings")
		f.put("word/webSettings.xml", hdr+`<w:webSettings xmlns:w="`+nsW+`"/>`)
		ovr("word/webSettings.xml", "application/vnd.openxmlformats-officedocument.wordprocessingml.webSettings+xml")
		w.rel("webSettings", "webSettings.xml", false)
	}
	hasNumbering := r.Bool()
	if hasNumbering {
		w.feature("numbering")
		// what Word writes around the definitions: picture bullets before them, numIdMacAtCleanup after the last w:num; a second pair
		// of definitions so that new ones have to be placed between existing elements
		head, mid, tailEl := "", "", ""
		if r.Chance(1, 3) {
			head = `<w:numPicBullet w:numPicBulletId="0"><w:pict/></w:numPicBullet>`
		}
		if r.Bool() {
			mid = `<w:abstractNum w:abstractNumId="9"><w:multiLevelType w:val="hybridMultilevel"/><w:lvl w:ilvl="0"><w:start w:val="1"/><w:numFmt w:val="bullet"/><w:lvlText w:val="o"/></w:lvl></w:abstractNum>`
			tailEl = `<w:num w:numId="12"><w:abstractNumId w:val="9"/><w:lvlOverride w:ilvl="0"><w:startOverride w:val="4"/></w:lvlOverride></w:num>`
		}
		if r.Bool() {
			tailEl += `<w:numIdMacAtCleanup w:val="12"/>`
			w.feature("numIdMacAtCleanup")
		}
		f.put("word/numbering.xml", hdr+`<w:numbering xmlns:w="`+nsW+`">`+head+`<w:abstractNum w:abstractNumId="5"><w:lvl w:ilvl="0"><w:start w:val="3"/><w:numFmt w:val="upperRoman"/><w:lvlText w:val="%1)"/></w:lvl></w:abstractNum>`+mid+`<w:num w:numId="7"><w:abstractNumId w:val="5"/></w:num>`+tailEl+`</w:numbering>`)
		ovr("word/numbering.xml", "application/vnd.openxmlformats-officedocument.wordprocessingml.numbering+xml")
		w.rel("numbering", "numbering.xml", false)
	}
	hasFootnotes := r.Chance(1, 3)
	if hasFootnotes {
		w.feature("footnotes")
		f.put("word/footnotes.xml", hdr+`<w:footnotes xmlns:w="`+nsW+`"><w:footnote w:type="separator" w:id="-1"><w:p/></w:footnote><w:footnote w:id="2"><w:p><w:r><w:t>foreign note</w:t></w:r></w:p></w:footnote></w:footnotes>`)
		ovr("word/footnotes.xml", "application/vnd.openxmlformats-officedocument.wordprocessingml.footnotes+xml")
		w.rel("footnotes", "footnotes.xml", false)
	}
	if !opts.Simple && r.Chance(1, 4) {
		w.feature("endnotes")
		f.put("word/endnotes.xml", hdr+`<w:endnotes xmlns:w="`+nsW+`"><w:endnote w:type="separator" w:id="0"><w:p/></w:endnote><w:endnote w:id="3"><w:p><w:r><w:t>foreign endnote</w:t></w:r></w:p></w:endnote></w:endnotes>`)
		ovr("word/endnotes.xml", "application/vnd.openxmlformats-officedocument.wordprocessingml.endnotes+xml")
		w.rel("endnotes", "endnotes.xml", false)
	}
	if r.Chance(1, 3) {
		w.feature("comments")
		f.put("word/comments.xml", hdr+`<w:comments xmlns:w="`+nsW+`"><w:comment w:id="0" w:author="A"><w:p><w:r><w:t>c</w:t></w:r></w:p></w:comment></w:comments>`)
		ovr("word/comments.xml", "application/vnd.openxmlformats-officedocument.wordprocessingml.comments+xml")
		w.rel("comments", "comments.xml", false)
	}
	if r.Chance(1, 3) {
		w.feature("customXml")
		item := hdr + `<root xmlns="urn:custom"><v>1</v></root>`
		if !opts.Simple && r.Chance(1, 3) {
			// a data item stored as UTF-16 with byte order mark (what .NET writes by default): a part like any other
			le := r.Bool()
			x := strings.Replace(item, `encoding="UTF-8"`, `encoding="UTF-16"`, 1) + "<!-- Größe: 5 µm -->"
			b := []byte{0xfe, 0xff}
			if le {
				b = []byte{0xff, 0xfe}
			}
			for _, u := range utf16.Encode([]rune(x)) {
				if le {
					b = append(b, byte(u), byte(u>>8))
				} else {
					b = append(b, byte(u>>8), byte(u))
				}
			}
			item = string(b)
			w.feature("utf-16-data-item")
		}
		f.put("customXml/item1.xml", item)
		f.put("customXml/itemProps1.xml", hdr+`<ds:datastoreItem xmlns:ds="http://schemas.openxmlformats.org/officeDocument/2006/customXml" ds:itemID="{A}"/>`)
		f.put("customXml/_rels/item1.xml.rels", hdr+`<Relationships xmlns="`+relNS+`"><Relationship Id="rId1" Type="`+relT+`customXmlProps" Target="itemProps1.xml"/></Relationships>`)
		ovr("customXml/itemProps1.xml", "application/vnd.openxmlformats-officedocument.customXmlProperties+xml")
		w.rel("customXml", "../customXml/item1.xml", false)
	}
	if !opts.Simple && r.Chance(1, 4) {
		// a zero-length part is a legal part (an embedded object that was never filled, an empty data item)
		w.feature("zero-length-part")
		f.put("word/embeddings/oleObject1.bin", "")
		if !addDefault["bin"] {
			addDefault["bin"] = true
			ct = append(ct, `<Default Extension="bin" ContentType="application/vnd.openxmlformats-officedocument.oleObject"/>`)
		}
		w.rel("oleObject", "embeddings/oleObject1.bin", false)
	}
	// media
	nMedia := r.Range(0, 3)
	mediaIDs := []string{}
	for i := 0; i < nMedia; i++ {
		name := foreignMediaNames[r.Intn(len(foreignMediaNames))]
		if f.Parts["word/media/"+name] != nil {
			continue
		}
		w.serial++
		format := "png"
		lower := strings.ToLower(name)
		switch {
		case strings.HasSuffix(lower, ".jpeg"), strings.HasSuffix(lower, ".jpg"):
			format = "jpeg"
		case strings.HasSuffix(lower, ".gif"):
			format = "gif"
		}
		im := MakeImage(format, 1000+w.serial, r.Range(2, 12), r.Range(2, 12))
		f.put("word/media/"+name, string(im.Data))
		f.Media = append(f.Media, "word/media/"+name)
		ext := ""
		if i := strings.LastIndex(name, "."); i >= 0 {
			ext = strings.ToLower(name[i+1:])
		}
		if ext == "" {
			ovr("word/media/"+name, "image/png")
		} else if !addDefault[ext] {
			addDefault[ext] = true
			typ := map[string]string{"png": "image/png", "jpeg": "image/jpeg", "jpg": "image/jpeg", "gif": "image/gif", "emf": "image/x-emf"}[ext]
			spelled := ext
			if orig := name[strings.LastIndex(name, ".")+1:]; orig != ext && r.Bool() {
				spelled = orig // the Default carries the extension as the part spells it (extensions compare case-insensitively)
				w.feature("default-extension-in-upper-case")
			}
			ct = append(ct, fmt.Sprintf(`<Default Extension="%s" ContentType="%s"/>`, spelled, typ))
		}
		mediaIDs = append(mediaIDs, w.rel("image", "media/"+name, false))
		w.feature("media:" + name)
	}
	// header / footer parts with their own rels
	sectRefs := ""
	if r.Bool() && !opts.Simple {
		w.feature("header-with-own-rels")
		himg := MakeImage("png", 5000+r.Intn(1000), 3, 3)
		// the header's picture is only referenced from the header's own relationships; its name may follow the
		// imageN pattern with a number higher than anything the main part refers to
		logo := "hdrlogo.png"
		for _, cand := range []string{"image1.png", "image2.png", "image3.png", "image9.png", "hdrlogo.png"}[r.Intn(5):] {
			if f.Parts["word/media/"+cand] == nil {
				logo = cand
				break
			}
		}
		if len(f.Media) > 0 && r.Chance(1, 3) {
			// the header shows a picture file the body shows too: one media part, reached from two relationship parts
			logo = strings.TrimPrefix(f.Media[r.Intn(len(f.Media))], "word/media/")
			w.feature("header-shares-body-media")
		} else {
			f.put("word/media/"+logo, string(himg.Data))
			f.Media = append(f.Media, "word/media/"+logo)
		}
		w.feature("header-media:" + logo)
		if !addDefault["png"] {
			addDefault["png"] = true
			ct = append(ct, `<Default Extension="png" ContentType="image/png"/>`)
		}
		f.put("word/header2.xml", hdr+`<w:hdr xmlns:w="`+nsW+`" xmlns:r="`+nsR+`" xmlns:wp="http://schemas.openxmlformats.org/drawingml/2006/wordprocessingDrawing" xmlns:a="http://schemas.openxmlformats.org/drawingml/2006/main" xmlns:pic="http://schemas.openxmlformats.org/drawingml/2006/picture"><w:p><w:r><w:t>Foreign header {{title}}</w:t></w:r><w:r><w:drawing><wp:inline><wp:extent cx="100" cy="100"/><wp:docPr id="9" name="l"/><a:graphic><a:graphicData uri="http://schemas.openxmlformats.org/drawingml/2006/picture"><pic:pic><pic:nvPicPr><pic:cNvPr id="0" name="l"/><pic:cNvPicPr/></pic:nvPicPr><pic:blipFill><a:blip r:embed="rId1"/></pic:blipFill><pic:spPr/></pic:pic></a:graphicData></a:graphic></wp:inline></w:drawing></w:r></w:p></w:hdr>`)
		f.put("word/_rels/header2.xml.rels", hdr+`<Relationships xmlns="`+relNS+`"><Relationship Id="rId1" Type="`+relT+`image" Target="media/`+logo+`"/></Relationships>`)
		ovr("word/header2.xml", "application/vnd.openxmlformats-officedocument.wordprocessingml.header+xml")
		hid := w.rel("header", "header2.xml", false)
		sectRefs += `<` + w.el("headerReference") + w.at("type", "default") + ` r:id="` + hid + `"/>`
		if r.Chance(1, 3) {
			// one header part for two kinds: both references carry the same relationship id
			w.feature("header-relationship-shared-by-two-kinds")
			sectRefs += `<` + w.el("headerReference") + w.at("type", "first") + ` r:id="` + hid + `"/>`
		}
	}
	if sectRefs != "" && !strings.Contains(sectRefs, `"first"`) && r.Chance(1, 3) {
		// the layout Word writes for a document with different odd and even pages: the part with the lower number belongs to the
		// even pages (or the first page), the default header has the higher one - so a part name another producer (this library
		// included) would pick for the default header is taken by another kind
		kind := []string{"even", "first"}[r.Intn(2)]
		name := []string{"header1.xml", "header1.xml", "headereven.xml", "headerfirst.xml"}[r.Intn(4)]
		w.feature("second-header:" + kind + "-in-" + name)
		f.put("word/"+name, hdr+`<w:hdr xmlns:w="`+nsW+`"><w:p><w:r><w:t>Foreign `+kind+` header</w:t></w:r></w:p></w:hdr>`)
		ovr("word/"+name, "application/vnd.openxmlformats-officedocument.wordprocessingml.header+xml")
		hid2 := w.rel("header", name, false)
		sectRefs += `<` + w.el("headerReference") + w.at("type", kind) + ` r:id="` + hid2 + `"/>`
	}
	if r.Bool() && !opts.Simple {
		w.feature("footer")
		fname := []string{"footer3.xml", "footer3.xml", "footer1.xml", "footereven.xml", "footerfirst.xml"}[r.Intn(5)] // also names another producer would give to another kind
		w.feature("footer-part:" + fname)
		f.put("word/"+fname, hdr+`<w:ftr xmlns:w="`+nsW+`"><w:p><w:r><w:t>Foreign footer</w:t></w:r></w:p></w:ftr>`)
		ovr("word/"+fname, "application/vnd.openxmlformats-officedocument.wordprocessingml.footer+xml")
		fid := w.rel("footer", fname, false)
		sectRefs += `<` + w.el("footerReference") + w.at("type", []string{"default", "first", "even"}[r.Intn(3)]) + ` r:id="` + fid + `"/>`
	}
	// docProps
	pkgRels := []string{`<Relationship Id="` + []string{"rId1", "rId3", "R1"}[r.Intn(3)] + `" Type="` + relT + `officeDocument" Target="word/document.xml"/>`}
	if r.Bool() {
		w.feature("docProps")
		f.put("docProps/core.xml", hdr+`<cp:coreProperties xmlns:cp="http://schemas.openxmlformats.org/package/2006/metadata/core-properties" xmlns:dc="http://purl.org/dc/elements/1.1/"><dc:title>Foreign title</dc:title><dc:creator>Someone</dc:creator></cp:coreProperties>`)
		f.put("docProps/app.xml", hdr+`<Properties xmlns="http://schemas.openxmlformats.org/officeDocument/2006/extended-properties"><Application>Other App</Application></Properties>`)
		ovr("docProps/core.xml", "application/vnd.openxmlformats-package.core-properties+xml")
		ovr("docProps/app.xml", "application/vnd.openxmlformats-officedocument.extended-properties+xml")
		coreTarget := "docProps/core.xml"
		if !opts.Simple && r.Chance(1, 3) {
			// the name System.IO.Packaging / the Open XML SDK give the core properties part
			coreName := "package/services/metadata/core-properties/6b1f0c2a9d5e4c7f8a1b2c3d4e5f6a7b.psmdcp"
			f.Parts[coreName] = f.Parts["docProps/core.xml"]
			delete(f.Parts, "docProps/core.xml")
			for i, n := range f.Order {
				if n == "docProps/core.xml" {
					f.Order[i] = coreName
				}
			}
			ct[len(ct)-2] = `<Override PartName="/` + coreName + `" ContentType="application/vnd.openxmlformats-package.core-properties+xml"/>`
			coreTarget = "/" + coreName
			w.feature("core-properties-part-named-psmdcp")
		}
		pkgRels = append(pkgRels, `<Relationship Id="rId7" Type="http://schemas.openxmlformats.org/package/2006/relationships/metadata/core-properties" Target="`+coreTarget+`"/>`,
			`<Relationship Id="rId8" Type="`+relT+`extended-properties" Target="docProps/app.xml"/>`)
	}
	if r.Chance(1, 4) {
		w.feature("thumbnail")
		f.put("docProps/thumbnail.jpeg", string(MakeImage("jpeg", 7777, 4, 4).Data))
		if !addDefault["jpeg"] {
			addDefault["jpeg"] = true
			ct = append(ct, `<Default Extension="jpeg" ContentType="image/jpeg"/>`)
		}
		pkgRels = append(pkgRels, `<Relationship Id="rId9" Type="http://schemas.openxmlformats.org/package/2006/relationships/metadata/thumbnail" Target="docProps/thumbnail.jpeg"/>`)
	}

	// body
	var body strings.Builder
	nblocks := r.Range(1, 7)
	for i := 0; i < nblocks; i++ {
		k := r.Intn(11)
		if opts.Simple && k >= 7 {
			k = 0
		}
		if !opts.Simple && i == 0 && r.Chance(1, 8) {
			// a table of contents as Word writes it without a content control: paragraphs in the styles TOC1/TOC2, followed by the
			// ordinary content of the document (paragraphs without a style of their own, tables)
			w.feature("toc-paragraphs")
			for j, n := 0, r.Range(1, 3); j < n; j++ {
				body.WriteString("<" + w.el("p") + "><" + w.el("pPr") + "><" + w.el("pStyle") + w.at("val", []string{"TOC1", "TOC2"}[r.Intn(2)]) + "/></" + w.el("pPr") + "><" + w.el("r") + "><" + w.el("t") + ">Contents entry</" + w.el("t") + "></" + w.el("r") + "></" + w.el("p") + ">")
			}
		}
		switch k {
		default:
			body.WriteString(w.paragraph(0))
		case 10:
			// block-level custom XML markup around paragraphs and tables
			w.feature("customXml-block")
			w.block = "customXml-block"
			body.WriteString("<" + w.el("customXml") + w.at("uri", "urn:x") + w.at("element", "section") + ">" + w.paragraph(0))
			if r.Bool() {
				body.WriteString(w.table(0))
			}
			body.WriteString(w.paragraph(0) + "</" + w.el("customXml") + ">")
			w.block = ""
		case 5, 6:
			body.WriteString(w.table(0))
		case 7:
			w.feature("sdt-block")
			w.block = "sdt-block"
			pr := "<" + w.el("sdtPr") + "/>"
			if gi := r.Intn(5); gi > 0 {
				// building-block content controls of other galleries (quick tables, cover pages, ...) look like a TOC control except for the gallery name
				gal := []string{"", "Tables", "Cover Pages", "Custom Table of Figures", "Bibliographies"}[gi]
				w.feature("sdt-gallery:" + gal)
				pr = "<" + w.el("sdtPr") + "><" + w.el("docPartObj") + "><" + w.el("docPartGallery") + w.at("val", gal) + "/><" + w.el("docPartUnique") + "/></" + w.el("docPartObj") + "></" + w.el("sdtPr") + ">"
			}
			body.WriteString("<" + w.el("sdt") + ">" + pr + "<" + w.el("sdtContent") + ">" + w.paragraph(0) + w.paragraph(0) + "</" + w.el("sdtContent") + "></" + w.el("sdt") + ">")
			w.block = ""
		case 8:
			if len(mediaIDs) > 0 {
				w.feature("picture")
				id := mediaIDs[r.Intn(len(mediaIDs))]
				body.WriteString("<" + w.el("p") + "><" + w.el("r") + "><" + w.el("drawing") + `><wp:inline><wp:extent cx="95250" cy="95250"/><wp:docPr id="3" name="p"/><a:graphic><a:graphicData uri="http://schemas.openxmlformats.org/drawingml/2006/picture"><pic:pic><pic:nvPicPr><pic:cNvPr id="0" name="p"/><pic:cNvPicPr/></pic:nvPicPr><pic:blipFill><a:blip r:embed="` + id + `"/><a:stretch><a:fillRect/></a:stretch></pic:blipFill><pic:spPr><a:xfrm><a:off x="0" y="0"/><a:ext cx="95250" cy="95250"/></a:xfrm><a:prstGeom prst="rect"><a:avLst/></a:prstGeom></pic:spPr></pic:pic></a:graphicData></a:graphic></wp:inline></` + w.el("drawing") + "></" + w.el("r") + "></" + w.el("p") + ">")
			} else if !opts.Simple && r.Bool() {
				// a picture that is linked, not embedded: the blip carries r:link, the relationship is external
				w.feature("linked-picture")
				id := w.rel("image", "file:///C:/pictures/logo%20"+fmt.Sprint(r.Intn(9))+".png", true)
				body.WriteString("<" + w.el("p") + "><" + w.el("r") + "><" + w.el("drawing") + `><wp:inline><wp:extent cx="95250" cy="95250"/><wp:docPr id="4" name="lp"/><a:graphic><a:graphicData uri="http://schemas.openxmlformats.org/drawingml/2006/picture"><pic:pic><pic:nvPicPr><pic:cNvPr id="0" name="lp"/><pic:cNvPicPr/></pic:nvPicPr><pic:blipFill><a:blip r:link="` + id + `"/><a:stretch><a:fillRect/></a:stretch></pic:blipFill><pic:spPr><a:xfrm><a:off x="0" y="0"/><a:ext cx="95250" cy="95250"/></a:xfrm><a:prstGeom prst="rect"><a:avLst/></a:prstGeom></pic:spPr></pic:pic></a:graphicData></a:graphic></wp:inline></` + w.el("drawing") + "></" + w.el("r") + "></" + w.el("p") + ">")
			} else {
				body.WriteString(w.paragraph(0))
			}
		case 9:
			if hasNumbering {
				w.feature("list-paragraph")
				t := w.word()
				body.WriteString("<" + w.el("p") + "><" + w.el("pPr") + "><" + w.el("numPr") + "><" + w.el("ilvl") + w.at("val", "0") + "/><" + w.el("numId") + w.at("val", "7") + "/></" + w.el("numPr") + "></" + w.el("pPr") + ">" + w.run(t) + "</" + w.el("p") + ">")
			} else if hasFootnotes {
				w.feature("footnote-ref")
				body.WriteString("<" + w.el("p") + ">" + w.run(w.word()) + "<" + w.el("r") + "><" + w.el("footnoteReference") + w.at("id", "2") + "/></" + w.el("r") + "></" + w.el("p") + ">")
			} else {
				body.WriteString(w.paragraph(0))
			}
		}
	}
	docGrid := ""
	if !opts.Simple && r.Bool() {
		docGrid = "<" + w.el("cols") + w.at("space", "425") + "/><" + w.el("docGrid") + w.at("type", "lines") + w.at("linePitch", []string{"312", "360", "0", "1"}[r.Intn(4)]) + "/>"
		w.feature("docGrid")
	}
	sect := "<" + w.el("sectPr") + ">" + sectRefs + "<" + w.el("pgSz") + w.at("w", "11906") + w.at("h", "16838") + "/><" + w.el("pgMar") + w.at("top", "1440") + w.at("right", "1800") + w.at("bottom", "1440") + w.at("left", "1800") + w.at("header", "851") + w.at("footer", "992") + w.at("gutter", "0") + "/>" + docGrid + "</" + w.el("sectPr") + ">"
	switch {
	case r.Chance(1, 4) && !opts.Simple:
		w.feature("sectPr-in-last-paragraph")
		body.WriteString("<" + w.el("p") + "><" + w.el("pPr") + ">" + sect + "</" + w.el("pPr") + ">" + w.run(w.word()) + "</" + w.el("p") + ">")
	case r.Chance(1, 4) && !opts.Simple:
		// two sections that use the same header/footer relationships: the first ends in a paragraph, the second is the body's
		w.feature("two-sections")
		body.WriteString("<" + w.el("p") + "><" + w.el("pPr") + ">" + sect + "</" + w.el("pPr") + ">" + w.run(w.word()) + "</" + w.el("p") + ">")
		body.WriteString(w.paragraph(0))
		body.WriteString(sect)
	default:
		body.WriteString(sect)
	}
	xmlnsW := `xmlns:` + w.p + `="` + nsW + `"`
	if w.p == "" {
		xmlnsW = `xmlns="` + nsW + `" xmlns:w="` + nsW + `"`
	}
	doc := hdr + "<" + w.el("document") + " " + xmlnsW + ` xmlns:r="` + nsR + `" xmlns:wp="http://schemas.openxmlformats.org/drawingml/2006/wordprocessingDrawing" xmlns:a="http://schemas.openxmlformats.org/drawingml/2006/main" xmlns:pic="http://schemas.openxmlformats.org/drawingml/2006/picture" xmlns:mc="http://schemas.openxmlformats.org/markup-compatibility/2006"><` + w.el("body") + ">" + body.String() + "</" + w.el("body") + "></" + w.el("document") + ">"
	if r.Chance(1, 5) {
		w.feature("respelled-markup")
		doc = Respell(r, doc)
	}
	f.put("word/document.xml", doc)
	// the package's own XML vocabularies (relationships, content types) under a namespace prefix instead of the default
	// namespace: the same infoset, written by producers that serialise through a generic XML library
	prefixed := func(xmlBody, root, ns, pfx string, children ...string) string {
		out := strings.ReplaceAll(xmlBody, "<"+root+` xmlns="`+ns+`">`, "<"+pfx+":"+root+" xmlns:"+pfx+`="`+ns+`">`)
		out = strings.ReplaceAll(out, "</"+root+">", "</"+pfx+":"+root+">")
		for _, ch := range children {
			out = strings.ReplaceAll(out, "<"+ch+" ", "<"+pfx+":"+ch+" ")
		}
		return out
	}
	docRelsXML := `<Relationships xmlns="` + relNS + `">` + strings.Join(w.docRels, "") + `</Relationships>`
	pkgRelsXML := `<Relationships xmlns="` + relNS + `">` + strings.Join(pkgRels, "") + `</Relationships>`
	ctXML := `<Types xmlns="http://schemas.openxmlformats.org/package/2006/content-types">` + strings.Join(ct, "") + `</Types>`
	if !opts.Simple && r.Chance(1, 6) {
		// no Default for the extension xml: every XML part has an Override of its own
		w.feature("no-default-for-xml")
		ctXML = strings.Replace(ctXML, `<Default Extension="xml" ContentType="application/xml"/>`, "", 1)
		for _, n := range f.Order {
			if strings.HasSuffix(n, ".xml") && !strings.Contains(ctXML, `PartName="/`+n+`"`) {
				ctXML = strings.Replace(ctXML, "</", `<Override PartName="/`+n+`" ContentType="application/xml"/></`, 1)
			}
		}
	}
	if !opts.Simple && r.Chance(1, 8) {
		w.feature("prefixed-package-vocabulary")
		switch r.Intn(3) {
		case 0:
			docRelsXML = prefixed(docRelsXML, "Relationships", relNS, "rel", "Relationship")
		case 1:
			pkgRelsXML = prefixed(pkgRelsXML, "Relationships", relNS, "pr", "Relationship")
		default:
			ctXML = prefixed(ctXML, "Types", "http://schemas.openxmlformats.org/package/2006/content-types", "ct", "Default", "Override")
		}
	}
	// the parts beside the main part in other legal spellings: a byte order mark in front, the vocabulary under another
	// prefix, white space inside the root's end tag, a comment or white space behind the root element, no XML declaration
	if !opts.Simple {
		for _, name := range []string{"word/numbering.xml", "word/footnotes.xml", "word/endnotes.xml", "word/styles.xml", "word/settings.xml"} {
			b, ok := f.Parts[name]
			if !ok || !r.Chance(1, 3) {
				continue
			}
			x := string(b)
			for n := r.Range(1, 2); n > 0; n-- {
				var feat string
				if x, feat = RespellPart(r, x, name); feat != "" {
					w.feature(feat)
				}
			}
			f.Parts[name] = []byte(x)
		}
	}
	// the package's own vocabularies stored as UTF-16 with byte order mark (the other encoding OPC allows; what a producer
	// gets that serialises every part through a generic XML writer set to UTF-16)
	enc := func(x string) string { return x }
	if !opts.Simple && r.Chance(1, 12) {
		which := r.Intn(3)
		le := r.Bool()
		to16 := func(x string) string {
			x = strings.Replace(x, `encoding="UTF-8"`, `encoding="UTF-16"`, 1)
			b := []byte{0xfe, 0xff}
			if le {
				b = []byte{0xff, 0xfe}
			}
			for _, u := range utf16.Encode([]rune(x)) {
				if le {
					b = append(b, byte(u), byte(u>>8))
				} else {
					b = append(b, byte(u>>8), byte(u))
				}
			}
			return string(b)
		}
		w.feature([]string{"utf-16:main-part-relationships", "utf-16:package-relationships", "utf-16:content-types"}[which])
		switch which {
		case 0:
			docRelsXML = to16(hdr + docRelsXML)
		case 1:
			pkgRelsXML = to16(hdr + pkgRelsXML)
		default:
			ctXML = to16(hdr + ctXML)
		}
		enc = func(x string) string {
			if strings.HasPrefix(x, hdr+"\xfe\xff") || strings.HasPrefix(x, hdr+"\xff\xfe") {
				return strings.TrimPrefix(x, hdr)
			}
			return x
		}
	}
	f.put("word/_rels/document.xml.rels", enc(hdr+docRelsXML))
	f.put("_rels/.rels", enc(hdr+pkgRelsXML))
	f.put("[Content_Types].xml", enc(hdr+ctXML))
	// a realistic order: content types first
	order := []string{"[Content_Types].xml", "_rels/.rels"}
	for _, n := range f.Order {
		if n != "[Content_Types].xml" && n != "_rels/.rels" {
			order = append(order, n)
		}
	}
	f.Order = order
	f.MainText = w.text.String()
	return f
}
