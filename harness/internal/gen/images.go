package gen

import (
	"bytes"
	"image"
	"image/color"
	"image/gif"
	"image/jpeg"
	"image/png"

	"verifharness/internal/rng"
)

// Image is a generated, unique picture.
type Image struct {
	Serial int
	Format string // png | jpeg | gif
	W, H   int
	Data   []byte
}

// MakeImage builds a w×h picture whose pixels encode serial (so bytes are unique per serial).
func MakeImage(format string, serial, w, h int) Image {
	img := image.NewRGBA(image.Rect(0, 0, w, h))
	r := rng.New(uint64(serial)*7919 + 13)
	for y := 0; y < h; y++ {
		for x := 0; x < w; x++ {
			v := r.U64()
			img.Set(x, y, color.RGBA{uint8(v), uint8(v >> 8), uint8(v >> 16), 255})
		}
	}
	// serial in the first pixels, verbatim
	img.Set(0, 0, color.RGBA{uint8(serial), uint8(serial >> 8), uint8(serial >> 16), 255})
	var buf bytes.Buffer
	switch format {
	case "jpeg":
		jpeg.Encode(&buf, img, &jpeg.Options{Quality: 90})
	case "gif":
		pal := make(color.Palette, 0, 256)
		for i := 0; i < 256; i++ {
			pal = append(pal, color.RGBA{uint8(i), uint8(i * 7), uint8(i * 13), 255})
		}
		p := image.NewPaletted(img.Bounds(), pal)
		for y := 0; y < h; y++ {
			for x := 0; x < w; x++ {
				p.SetColorIndex(x, y, uint8(r.U64()))
			}
		}
		p.SetColorIndex(0, 0, uint8(serial))
		if w > 1 {
			p.SetColorIndex(1, 0, uint8(serial>>8))
		}
		gif.Encode(&buf, p, nil)
	default:
		format = "png"
		png.Encode(&buf, img)
	}
	data := buf.Bytes()
	// trailing bytes after the image end are legal for all three formats' decoders
	// used here? Not relied upon: uniqueness comes from the pixels + size.
	return Image{Serial: serial, Format: format, W: w, H: h, Data: data}
}

var Formats = []string{"png", "jpeg", "gif"}

// RandomImage draws format and size.
func RandomImage(r *rng.R, serial int) Image {
	return MakeImage(Formats[r.Intn(3)], serial, r.Range(1, 40), r.Range(1, 40))
}
