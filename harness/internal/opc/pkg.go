package opc

import (
	"archive/zip"
	"bytes"
	"fmt"
	"io"
	"path"
	"regexp"
	"sort"
	"strings"
)

// Problem is one rejected observation of the package monitor.
type Problem struct {
	Rule   string // rule id
	Key    string // narrow, data-independent key (rule/class/...)
	Detail string
}

type Rel struct {
	ID, Type, Target, Mode string
}

func (r Rel) External() bool { return strings.EqualFold(r.Mode, "External") }

// ShortType returns the last path segment of the relationship type.
func (r Rel) ShortType() string {
	i := strings.LastIndex(r.Type, "/")
	return r.Type[i+1:]
}

type Package struct {
	Names    []string          // entry names in archive order
	Parts    map[string][]byte // entry name -> bytes
	ZipProbs []Problem

	trees    map[string]*Node
	xmlProbs map[string][]XMLProblem
	Stats    Stats
}

// Stats counts what the monitor actually looked at.
type Stats struct {
	Parts, XMLParts, Rels, RefsResolved, IDsResolved int
}

var digits = regexp.MustCompile(`[0-9]+`)

// Class maps a part name to its name class (digit runs -> N).
func Class(name string) string { return digits.ReplaceAllString(name, "N") }

func extOf(name string) string {
	base := path.Base(name)
	i := strings.LastIndex(base, ".")
	if i < 0 {
		return ""
	}
	return strings.ToLower(base[i+1:])
}

// Read opens the archive and inflates every entry.
func Read(data []byte) *Package {
	p := &Package{Parts: map[string][]byte{}, trees: map[string]*Node{}, xmlProbs: map[string][]XMLProblem{}}
	zr, err := zip.NewReader(bytes.NewReader(data), int64(len(data)))
	if err != nil {
		p.ZipProbs = append(p.ZipProbs, Problem{"zip-readable", "zip-readable/central-directory", err.Error()})
		return p
	}
	seen := map[string]bool{}
	for _, f := range zr.File {
		if strings.HasSuffix(f.Name, "/") && f.UncompressedSize64 == 0 {
			continue // directory entry
		}
		lower := strings.ToLower(f.Name)
		if seen[lower] {
			p.ZipProbs = append(p.ZipProbs, Problem{"zip-readable", "zip-readable/duplicate-entry/" + Class(lower), "entry name " + f.Name + " is equivalent to an earlier entry (OPC part names are case-insensitive)"})
			if _, exact := p.Parts[f.Name]; exact {
				continue
			}
		}
		seen[lower] = true
		if strings.HasPrefix(f.Name, "/") || strings.Contains(f.Name, "\\") || strings.Contains("/"+f.Name+"/", "/../") || strings.Contains("/"+f.Name+"/", "/./") || strings.Contains(f.Name, "//") || f.Name == "" {
			p.ZipProbs = append(p.ZipProbs, Problem{"zip-readable", "zip-readable/bad-entry-name", fmt.Sprintf("entry name %q", f.Name)})
		}
		rc, err := f.Open()
		if err != nil {
			p.ZipProbs = append(p.ZipProbs, Problem{"zip-readable", "zip-readable/entry-open/" + Class(f.Name), err.Error()})
			continue
		}
		b, err := io.ReadAll(rc)
		rc.Close()
		if err != nil {
			p.ZipProbs = append(p.ZipProbs, Problem{"zip-readable", "zip-readable/entry-inflate/" + Class(f.Name), err.Error()})
			continue
		}
		p.Names = append(p.Names, f.Name)
		p.Parts[f.Name] = b
	}
	p.Stats.Parts = len(p.Names)
	return p
}

func (p *Package) Has(name string) bool { _, ok := p.Parts[name]; return ok }

// IsXMLName says whether the entry is to be treated as XML by name.
func IsXMLName(name string) bool {
	e := extOf(name)
	return e == "xml" || e == "rels"
}

// Tree parses (and caches) a part.
func (p *Package) Tree(name string) (*Node, []XMLProblem) {
	if t, ok := p.trees[name]; ok {
		return t, p.xmlProbs[name]
	}
	b, ok := p.Parts[name]
	if !ok {
		return nil, []XMLProblem{{"xml-wellformed", "part missing", ""}}
	}
	t, pr := ParseXML(b)
	p.trees[name] = t
	p.xmlProbs[name] = pr
	p.Stats.XMLParts++
	return t, pr
}

// ContentTypes returns defaults (by lower-case extension) and overrides (by part name without leading slash).
type CT struct {
	Defaults  map[string]string
	Overrides map[string]string
	DupKeys   []string
	BadNames  []string
	// WrongVocabulary is set when the root is not {content-types namespace}Types: no consumer finds a single entry then
	WrongVocabulary string
}


func (p *Package) ContentTypes() (*CT, bool) {
	t, pr := p.Tree("[Content_Types].xml")
	if t == nil || len(pr) > 0 {
		return nil, false
	}
	ct := &CT{Defaults: map[string]string{}, Overrides: map[string]string{}}
	if !t.Is(NsCT, "Types") {
		ct.WrongVocabulary = fmt.Sprintf("root element {%s}%s", t.Space, t.Local)
		return ct, true
	}
	for _, c := range t.Children {
		if c.Space != NsCT {
			continue
		}
		switch c.Local {
		case "Default":
			e, _ := c.Attr("", "Extension")
			v, _ := c.Attr("", "ContentType")
			k := strings.ToLower(e)
			if _, dup := ct.Defaults[k]; dup {
				ct.DupKeys = append(ct.DupKeys, "Default:"+k)
			}
			ct.Defaults[k] = v
		case "Override":
			n, _ := c.Attr("", "PartName")
			v, _ := c.Attr("", "ContentType")
			if !strings.HasPrefix(n, "/") {
				ct.BadNames = append(ct.BadNames, n)
			}
			k := strings.TrimPrefix(n, "/")
			if _, dup := ct.Overrides[k]; dup {
				ct.DupKeys = append(ct.DupKeys, "Override:"+k)
			}
			ct.Overrides[k] = v
		}
	}
	return ct, true
}

// TypeOf returns the content type of a part ("" if none).
func (ct *CT) TypeOf(name string) string {
	if v, ok := ct.Overrides[name]; ok {
		return v
	}
	// override names are matched case-insensitively per OPC
	for k, v := range ct.Overrides {
		if strings.EqualFold(k, name) {
			return v
		}
	}
	if v, ok := ct.Defaults[extOf(name)]; ok && extOf(name) != "" {
		return v
	}
	return ""
}

// RelsPartFor returns the name of the relationship part of a source part ("" = package root).
func RelsPartFor(source string) string {
	if source == "" {
		return "_rels/.rels"
	}
	d, b := path.Split(source)
	return d + "_rels/" + b + ".rels"
}

// SourceOfRels is the inverse of RelsPartFor; ok=false if name is not a rels part.
func SourceOfRels(name string) (string, bool) {
	if !strings.HasSuffix(name, ".rels") {
		return "", false
	}
	d, b := path.Split(name)
	if !strings.HasSuffix(d, "_rels/") {
		return "", false
	}
	base := strings.TrimSuffix(b, ".rels")
	return strings.TrimSuffix(d, "_rels/") + base, true
}

// Rels parses a relationship part.
func (p *Package) Rels(relsPart string) ([]Rel, bool) {
	if !p.Has(relsPart) {
		return nil, false
	}
	t, pr := p.Tree(relsPart)
	if t == nil || len(pr) > 0 {
		return nil, false
	}
	var out []Rel
	if !t.Is(NsRel, "Relationships") {
		return nil, true // not the relationships vocabulary: no consumer finds a relationship in it (reported by WrongRelsVocabulary)
	}
	for _, c := range t.Children {
		if !c.Is(NsRel, "Relationship") {
			continue
		}
		var r Rel
		r.ID, _ = c.Attr("", "Id")
		r.Type, _ = c.Attr("", "Type")
		r.Target, _ = c.Attr("", "Target")
		r.Mode, _ = c.Attr("", "TargetMode")
		out = append(out, r)
	}
	return out, true
}

// ResolveTarget resolves an internal relationship target relative to its source part.
func ResolveTarget(source, target string) string {
	if strings.HasPrefix(target, "/") {
		return path.Clean(strings.TrimPrefix(target, "/"))
	}
	d, _ := path.Split(source)
	return path.Clean(d + target)
}

// MainPart returns the name of the main document part via _rels/.rels.
func (p *Package) MainPart() (string, bool) {
	rels, ok := p.Rels("_rels/.rels")
	if !ok {
		return "", false
	}
	var found []string
	for _, r := range rels {
		if r.Type == RelDoc || strings.HasSuffix(r.Type, "/relationships/officeDocument") {
			found = append(found, ResolveTarget("", r.Target))
		}
	}
	if len(found) != 1 {
		return "", false
	}
	return found[0], true
}

func isMainDocType(ct string) bool {
	return strings.HasSuffix(ct, "document.main+xml") || strings.HasSuffix(ct, "template.main+xml")
}

// CheckC01 applies the well-formed-package rules.
func (p *Package) CheckC01() []Problem {
	out := append([]Problem{}, p.ZipProbs...)
	if len(p.Names) == 0 && len(out) == 0 {
		out = append(out, Problem{"zip-readable", "zip-readable/empty-archive", "archive has no entries"})
	}
	names := append([]string{}, p.Names...)
	sort.Strings(names)
	for _, n := range names {
		if !IsXMLName(n) {
			continue
		}
		_, pr := p.Tree(n)
		for _, x := range pr {
			out = append(out, Problem{x.Rule, x.Rule + "/" + Class(n) + "/in=" + x.In, n + ": " + x.Detail})
		}
	}
	if !p.Has("[Content_Types].xml") {
		out = append(out, Problem{"content-types", "content-types/part-missing", "[Content_Types].xml missing"})
	} else if ct, ok := p.ContentTypes(); ok {
		if ct.WrongVocabulary != "" {
			out = append(out, Problem{"content-types", "content-types/not-the-content-types-vocabulary", "[Content_Types].xml: " + ct.WrongVocabulary + " instead of {" + NsCT + "}Types"})
		}
		for _, n := range names {
			if strings.HasSuffix(n, ".rels") {
				if t, pr := p.Tree(n); t != nil && len(pr) == 0 && !t.Is(NsRel, "Relationships") {
					out = append(out, Problem{"main-part", "main-part/not-the-relationships-vocabulary/" + Class(n), fmt.Sprintf("%s: root element {%s}%s instead of {%s}Relationships", n, t.Space, t.Local, NsRel)})
				}
			}
		}
		for _, d := range ct.DupKeys {
			out = append(out, Problem{"content-types", "content-types/duplicate-key/" + Class(d), "duplicate " + d})
		}
		for _, b := range ct.BadNames {
			out = append(out, Problem{"content-types", "content-types/override-without-leading-slash", "Override PartName " + b})
		}
		for _, n := range names {
			if n == "[Content_Types].xml" {
				continue
			}
			if ct.TypeOf(n) == "" {
				d, _ := path.Split(n)
				e := extOf(n)
				cls := "other"
				switch e {
				case "":
					cls = "none"
				case "png", "jpeg", "jpg", "gif", "xml", "rels", "bmp", "tiff", "emf", "wmf", "bin":
					cls = e
				}
				out = append(out, Problem{"content-types", "content-types/no-content-type/" + Class(d) + "*.ext=" + cls, "no content type for " + n})
			}
		}
		if !p.Has("_rels/.rels") {
			out = append(out, Problem{"main-part", "main-part/package-rels-missing", "_rels/.rels missing"})
		} else if rels, ok := p.Rels("_rels/.rels"); ok {
			var mains []Rel
			for _, r := range rels {
				if r.Type == RelDoc {
					mains = append(mains, r)
				}
			}
			if len(mains) != 1 {
				out = append(out, Problem{"main-part", fmt.Sprintf("main-part/officeDocument-count=%d", min(len(mains), 2)), fmt.Sprintf("%d officeDocument relationships", len(mains))})
			} else {
				t := ResolveTarget("", mains[0].Target)
				if !p.Has(t) {
					out = append(out, Problem{"main-part", "main-part/target-missing", "main part " + t + " missing"})
				} else if !isMainDocType(ct.TypeOf(t)) {
					out = append(out, Problem{"main-part", "main-part/wrong-content-type", "main part " + t + " has type " + ct.TypeOf(t)})
				}
			}
		}
	}
	return out
}

func min(a, b int) int {
	if a < b {
		return a
	}
	return b
}

var docLevelTypes = map[string]bool{"styles": true, "numbering": true, "footnotes": true, "endnotes": true, "settings": true,
	"header": true, "footer": true, "image": true, "fontTable": true, "theme": true, "webSettings": true, "comments": true, "hyperlink": true}
var pkgLevelTypes = map[string]bool{"officeDocument": true, "core-properties": true, "extended-properties": true, "custom-properties": true, "thumbnail": true}

// CheckC02 applies the relationship rules.
func (p *Package) CheckC02() []Problem {
	var out []Problem
	names := append([]string{}, p.Names...)
	sort.Strings(names)
	mainPart, _ := p.MainPart()
	for _, n := range names {
		src, ok := SourceOfRels(n)
		if !ok {
			continue
		}
		rels, ok := p.Rels(n)
		if !ok {
			continue // ill-formed rels parts are C01's business
		}
		if src != "" && !p.Has(src) {
			out = append(out, Problem{"rels-source", "rels-source-missing/" + Class(n), "relationship part " + n + " has no source part " + src})
		}
		seen := map[string]bool{}
		for _, r := range rels {
			p.Stats.Rels++
			if r.ID == "" {
				out = append(out, Problem{"rel-id", "empty-id/" + Class(n), "relationship without Id in " + n})
			}
			if seen[r.ID] {
				out = append(out, Problem{"rel-id", "duplicate-id/" + Class(n), fmt.Sprintf("duplicate relationship id %s in %s", r.ID, n)})
			}
			seen[r.ID] = true
			st := r.ShortType()
			if !r.External() {
				t := ResolveTarget(src, r.Target)
				if !p.Has(t) {
					out = append(out, Problem{"rel-target", "dangling-target/" + Class(n) + "/type=" + st, fmt.Sprintf("%s: %s (%s) -> %s does not exist", n, r.ID, st, t)})
				}
			}
			if src == "" && docLevelTypes[st] {
				out = append(out, Problem{"rel-owner", "wrong-owner/package-rels/type=" + st, fmt.Sprintf("_rels/.rels carries a %s relationship (%s -> %s)", st, r.ID, r.Target)})
			}
			if src != "" && pkgLevelTypes[st] {
				out = append(out, Problem{"rel-owner", "wrong-owner/" + Class(n) + "/type=" + st, fmt.Sprintf("%s carries a package-level %s relationship", n, st)})
			}
		}
	}
	// reference resolution inside WordprocessingML parts
	for _, n := range names {
		if !IsXMLName(n) || strings.HasSuffix(n, ".rels") || !strings.HasPrefix(n, "word/") && n != mainPart {
			continue
		}
		t, pr := p.Tree(n)
		if t == nil || len(pr) > 0 {
			continue
		}
		if t.Space != NsW {
			continue
		}
		rels, _ := p.Rels(RelsPartFor(n))
		byID := map[string][]Rel{}
		for _, r := range rels {
			byID[r.ID] = append(byID[r.ID], r)
		}
		check := func(el *Node, id, want string) {
			p.Stats.RefsResolved++
			rs := byID[id]
			where := Class(n)
			if len(rs) == 0 {
				out = append(out, Problem{"ref-resolve", "unresolved-ref/" + where + "/" + el.Local, fmt.Sprintf("%s: %s r:id=%q has no relationship in %s", n, el.Local, id, RelsPartFor(n))})
				return
			}
			if len(rs) > 1 {
				return // reported as duplicate-id
			}
			if rs[0].ShortType() != want {
				out = append(out, Problem{"ref-resolve", "wrong-kind-ref/" + where + "/" + el.Local + "/got=" + rs[0].ShortType(), fmt.Sprintf("%s: %s r:id=%q resolves to a %s relationship", n, el.Local, id, rs[0].ShortType())})
			}
		}
		t.Walk(func(x *Node) bool {
			switch {
			case x.Is(NsW, "headerReference"):
				id, _ := x.Attr(NsR, "id")
				check(x, id, "header")
			case x.Is(NsW, "footerReference"):
				id, _ := x.Attr(NsR, "id")
				check(x, id, "footer")
			case x.Is(NsA, "blip"):
				if id, ok := x.Attr(NsR, "embed"); ok {
					check(x, id, "image")
				}
				if id, ok := x.Attr(NsR, "link"); ok {
					check(x, id, "image")
				}
			case x.Is(NsW, "hyperlink"):
				if id, ok := x.Attr(NsR, "id"); ok {
					check(x, id, "hyperlink")
				}
			}
			return true
		})
	}
	return out
}

// WordParts lists the WordprocessingML story parts (main, headers, footers, notes) present.
func (p *Package) WordParts() []string {
	var out []string
	main, _ := p.MainPart()
	for _, n := range p.Names {
		if n == main {
			out = append(out, n)
			continue
		}
		if !strings.HasPrefix(n, "word/") || strings.Contains(n, "_rels/") || extOf(n) != "xml" {
			continue
		}
		b := path.Base(n)
		if strings.HasPrefix(b, "header") || strings.HasPrefix(b, "footer") || b == "footnotes.xml" || b == "endnotes.xml" {
			out = append(out, n)
		}
	}
	sort.Strings(out)
	return out
}

// CheckC13 applies the "everything referred to by id is defined" rules.
func (p *Package) CheckC13() []Problem {
	var out []Problem
	main, ok := p.MainPart()
	if !ok {
		return nil
	}
	// target of a given relationship type from the main part
	relTarget := func(short string) (string, bool) {
		rels, _ := p.Rels(RelsPartFor(main))
		for _, r := range rels {
			if r.ShortType() == short && !r.External() {
				return ResolveTarget(main, r.Target), true
			}
		}
		return "", false
	}
	styleIDs := map[string]bool{}
	haveStyles := false
	stylesPart, ok := relTarget("styles")
	if !ok {
		stylesPart = "word/styles.xml"
	}
	if t, pr := p.Tree(stylesPart); t != nil && len(pr) == 0 && p.Has(stylesPart) {
		haveStyles = true
		for _, s := range t.ChildrenOf(NsW, "style") {
			styleIDs[s.AttrW("styleId")] = true
		}
	}
	nums := map[string]string{}
	abstracts := map[string]bool{}
	numPart, ok := relTarget("numbering")
	if !ok {
		numPart = "word/numbering.xml"
	}
	if p.Has(numPart) {
		if t, pr := p.Tree(numPart); t != nil && len(pr) == 0 {
			for _, a := range t.ChildrenOf(NsW, "abstractNum") {
				abstracts[a.AttrW("abstractNumId")] = true
			}
			for _, nn := range t.ChildrenOf(NsW, "num") {
				ref := ""
				if c := nn.Child(NsW, "abstractNumId"); c != nil {
					ref = c.AttrW("val")
				}
				nums[nn.AttrW("numId")] = ref
			}
		}
	}
	noteIDs := func(kind string) (map[string]bool, bool) {
		part, ok := relTarget(kind + "s")
		if !ok {
			part = "word/" + kind + "s.xml"
		}
		if !p.Has(part) {
			return nil, false
		}
		t, pr := p.Tree(part)
		if t == nil || len(pr) > 0 {
			return nil, false
		}
		ids := map[string]bool{}
		for _, c := range t.ChildrenOf(NsW, kind) {
			ids[c.AttrW("id")] = true
		}
		return ids, true
	}
	fnIDs, haveFn := noteIDs("footnote")
	enIDs, haveEn := noteIDs("endnote")
	for _, n := range p.WordParts() {
		t, pr := p.Tree(n)
		if t == nil || len(pr) > 0 {
			continue
		}
		where := Class(n)
		t.Walk(func(x *Node) bool {
			if x.Space != NsW {
				return true
			}
			switch x.Local {
			case "pStyle", "rStyle", "tblStyle":
				id := x.AttrW("val")
				p.Stats.IDsResolved++
				if !haveStyles {
					out = append(out, Problem{"style-defined", "no-styles-part/" + x.Local, fmt.Sprintf("%s uses %s=%q but there is no styles part", n, x.Local, id)})
				} else if !styleIDs[id] {
					out = append(out, Problem{"style-defined", "undefined-style/" + where + "/" + x.Local + "=" + styleClass(id), fmt.Sprintf("%s: %s %q is not defined in %s", n, x.Local, id, stylesPart)})
				}
			case "numId":
				if x.Parent == nil || !x.Parent.Is(NsW, "numPr") {
					return true
				}
				id := x.AttrW("val")
				if id == "0" || id == "" {
					return true
				}
				p.Stats.IDsResolved++
				ref, ok := nums[id]
				if !ok {
					out = append(out, Problem{"num-defined", "undefined-numId/" + where, fmt.Sprintf("%s: numId %q has no w:num in %s", n, id, numPart)})
				} else if !abstracts[ref] {
					out = append(out, Problem{"num-defined", "undefined-abstractNum/" + where, fmt.Sprintf("%s: numId %q -> abstractNum %q which is not defined", n, id, ref)})
				}
			case "footnoteReference":
				id := x.AttrW("id")
				p.Stats.IDsResolved++
				if !haveFn || !fnIDs[id] {
					out = append(out, Problem{"note-defined", "undefined-footnote/" + where, fmt.Sprintf("%s: footnote id %q not defined", n, id)})
				}
			case "endnoteReference":
				id := x.AttrW("id")
				p.Stats.IDsResolved++
				if !haveEn || !enIDs[id] {
					out = append(out, Problem{"note-defined", "undefined-endnote/" + where, fmt.Sprintf("%s: endnote id %q not defined", n, id)})
				}
			}
			return true
		})
	}
	// basedOn / link / next inside the styles part must resolve too
	if haveStyles {
		t, _ := p.Tree(stylesPart)
		for _, s := range t.ChildrenOf(NsW, "style") {
			if b := s.Child(NsW, "basedOn"); b != nil {
				if id := b.AttrW("val"); id != "" && !styleIDs[id] {
					out = append(out, Problem{"style-defined", "undefined-basedOn/" + styleClass(id), fmt.Sprintf("style %q is based on undefined %q", s.AttrW("styleId"), id)})
				}
			}
		}
	}
	return out
}

// styleClass keeps library-known ids verbatim (they are part of the artefact
// vocabulary) and maps anything else to a class.
func styleClass(id string) string {
	if knownStyleIDs[Class(id)] {
		return Class(id)
	}
	if len(id) <= 3 && digits.MatchString(id) && digits.FindString(id) == id {
		return "numeric:" + id // WPS-style numeric ids emitted by the library's TOC code
	}
	return "<custom>"
}

// ids the library itself defines or emits (digit runs folded to N)
var knownStyleIDs = map[string]bool{"Normal": true, "HeadingN": true, "Title": true, "Subtitle": true, "Emphasis": true, "Strong": true, "CodeChar": true,
	"Quote": true, "ListParagraph": true, "CodeBlock": true, "TOCN": true, "TOCHeading": true, "Hyperlink": true, "TableNormal": true, "TableGrid": true, "TableList": true,
	"TableColorfulN": true, "TableColumnsN": true, "TableRowsN": true, "TablePlainN": true, "FootnoteText": true, "FootnoteReference": true, "EndnoteText": true, "EndnoteReference": true}

// StyleIDs returns the set of style ids defined in the styles part.
func (p *Package) StyleIDs() map[string]bool {
	out := map[string]bool{}
	if t, pr := p.Tree("word/styles.xml"); t != nil && len(pr) == 0 {
		for _, s := range t.ChildrenOf(NsW, "style") {
			out[s.AttrW("styleId")] = true
		}
	}
	return out
}

// StyleRunColor returns w:rPr/w:color@w:val of the style with the given id in word/styles.xml; ok is false when the style is not defined.
func (p *Package) StyleRunColor(id string) (string, bool) {
	t, pr := p.Tree("word/styles.xml")
	if t == nil || len(pr) > 0 {
		return "", false
	}
	for _, s := range t.ChildrenOf(NsW, "style") {
		if s.AttrW("styleId") != id {
			continue
		}
		if rp := s.Child(NsW, "rPr"); rp != nil {
			if c := rp.Child(NsW, "color"); c != nil {
				return c.AttrW("val"), true
			}
		}
		return "", true
	}
	return "", false
}
