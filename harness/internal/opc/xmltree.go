// Package opc is the independent OPC / OOXML reader and package monitor (M1).
// It uses only archive/zip and encoding/xml's RawToken and imports nothing
// from the library under test.
package opc

import (
	"bytes"
	"encoding/xml"
	"fmt"
	"io"
	"strings"
	"unicode/utf16"
)

// Well-known namespaces.
const (
	NsW    = "http://schemas.openxmlformats.org/wordprocessingml/2006/main"
	NsR    = "http://schemas.openxmlformats.org/officeDocument/2006/relationships"
	NsA    = "http://schemas.openxmlformats.org/drawingml/2006/main"
	NsWP   = "http://schemas.openxmlformats.org/drawingml/2006/wordprocessingDrawing"
	NsPic  = "http://schemas.openxmlformats.org/drawingml/2006/picture"
	NsM    = "http://schemas.openxmlformats.org/officeDocument/2006/math"
	NsRel  = "http://schemas.openxmlformats.org/package/2006/relationships"
	NsCT   = "http://schemas.openxmlformats.org/package/2006/content-types"
	NsXML  = "http://www.w3.org/XML/1998/namespace"
	NsMC   = "http://schemas.openxmlformats.org/markup-compatibility/2006"
	RelDoc = "http://schemas.openxmlformats.org/officeDocument/2006/relationships/officeDocument"
)

type Attr struct {
	Space, Local, Value string
}

// Node is a namespace-resolved element.
type Node struct {
	Space, Local string
	Attrs        []Attr
	Children     []*Node
	Text         string // character data directly inside this element (concatenated)
	Parent       *Node
}

func (n *Node) Is(space, local string) bool { return n != nil && n.Space == space && n.Local == local }

// Attr returns the value of the attribute (space, local); ok=false if absent.
func (n *Node) Attr(space, local string) (string, bool) {
	for _, a := range n.Attrs {
		if a.Space == space && a.Local == local {
			return a.Value, true
		}
	}
	return "", false
}

// AttrW returns the w:-namespace attribute, falling back to the unqualified one.
func (n *Node) AttrW(local string) string {
	if v, ok := n.Attr(NsW, local); ok {
		return v
	}
	v, _ := n.Attr("", local)
	return v
}

func (n *Node) Child(space, local string) *Node {
	for _, c := range n.Children {
		if c.Space == space && c.Local == local {
			return c
		}
	}
	return nil
}

func (n *Node) ChildrenOf(space, local string) []*Node {
	var out []*Node
	for _, c := range n.Children {
		if c.Space == space && c.Local == local {
			out = append(out, c)
		}
	}
	return out
}

// Walk visits n and all descendants in document order.
func (n *Node) Walk(f func(*Node) bool) {
	if n == nil {
		return
	}
	if !f(n) {
		return
	}
	for _, c := range n.Children {
		c.Walk(f)
	}
}

// Find returns all descendants (including n) named (space, local) in document order.
func (n *Node) Find(space, local string) []*Node {
	var out []*Node
	n.Walk(func(x *Node) bool {
		if x.Space == space && x.Local == local {
			out = append(out, x)
		}
		return true
	})
	return out
}

// Path returns the chain of local names from the root.
func (n *Node) Path() string {
	var parts []string
	for x := n; x != nil; x = x.Parent {
		parts = append([]string{x.Local}, parts...)
	}
	return strings.Join(parts, "/")
}

// XMLProblem describes why a part is not well-formed.
type XMLProblem struct {
	Rule   string // xml-wellformed | ns-unbound
	Detail string
	In     string // local name of the innermost open element where the problem was met ("" at top level)
}

// ParseXML tokenises data strictly to EOF and builds the resolved tree. It
// returns the tree (possibly partial) and the list of well-formedness problems.
func ParseXML(data []byte) (*Node, []XMLProblem) {
	var probs []XMLProblem
	var where func() string
	add := func(rule, f string, a ...interface{}) {
		if len(probs) < 8 {
			probs = append(probs, XMLProblem{rule, fmt.Sprintf(f, a...), where()})
		}
	}
	// a byte order mark may stand at the very start of the entity and nowhere else in the prolog
	data = bytes.TrimPrefix(data, []byte("\xef\xbb\xbf"))
	utf16Part := false
	if len(data) >= 2 && ((data[0] == 0xff && data[1] == 0xfe) || (data[0] == 0xfe && data[1] == 0xff)) {
		// UTF-16 with byte order mark (the other encoding OPC allows): read as the characters it encodes
		le := data[0] == 0xff
		u := make([]uint16, 0, len(data)/2)
		for i := 2; i+1 < len(data); i += 2 {
			if le {
				u = append(u, uint16(data[i])|uint16(data[i+1])<<8)
			} else {
				u = append(u, uint16(data[i])<<8|uint16(data[i+1]))
			}
		}
		data = []byte(string(utf16.Decode(u)))
		utf16Part = true
	}
	dec := xml.NewDecoder(bytes.NewReader(data))
	dec.Strict = true
	if utf16Part {
		dec.CharsetReader = func(label string, input io.Reader) (io.Reader, error) { return input, nil }
	}
	type frame struct {
		raw  xml.Name
		ns   map[string]string
		node *Node
	}
	var stack []frame
	where = func() string {
		if len(stack) == 0 {
			return ""
		}
		return stack[len(stack)-1].raw.Local
	}
	var root *Node
	roots := 0
	lookup := func(prefix string) (string, bool) {
		if prefix == "xml" {
			return NsXML, true
		}
		for i := len(stack) - 1; i >= 0; i-- {
			if v, ok := stack[i].ns[prefix]; ok {
				return v, true
			}
		}
		return "", false
	}
	for {
		tokStart := dec.InputOffset()
		tok, err := dec.RawToken()
		if err == io.EOF {
			break
		}
		if err != nil {
			add("xml-wellformed", "tokenizer: %v", err)
			break
		}
		switch t := tok.(type) {
		case xml.StartElement:
			fr := frame{raw: t.Name, ns: map[string]string{}}
			seen := map[string]bool{}
			for _, a := range t.Attr {
				rawName := a.Name.Space + ":" + a.Name.Local
				if seen[rawName] {
					add("xml-wellformed", "duplicate attribute %s on <%s>", rawName, t.Name.Local)
				}
				seen[rawName] = true
				if a.Name.Space == "xmlns" {
					if a.Value == "" {
						// Namespaces in XML 1.0: a prefix cannot be undeclared, xmlns:p="" is an error every consumer reports
						add("ns-unbound", "prefix %q is bound to the empty namespace name on <%s> (xmlns:%s=\"\")", a.Name.Local, t.Name.Local, a.Name.Local)
					}
					fr.ns[a.Name.Local] = a.Value
				} else if a.Name.Space == "" && a.Name.Local == "xmlns" {
					fr.ns[""] = a.Value
				}
			}
			stack = append(stack, fr)
			n := &Node{Local: t.Name.Local}
			if t.Name.Space != "" {
				if uri, ok := lookup(t.Name.Space); ok {
					n.Space = uri
				} else {
					add("ns-unbound", "element prefix %q not bound on <%s:%s>", t.Name.Space, t.Name.Space, t.Name.Local)
					n.Space = "unbound:" + t.Name.Space
				}
			} else if uri, ok := lookup(""); ok {
				n.Space = uri
			}
			seenExp := map[string]bool{}
			for _, a := range t.Attr {
				if a.Name.Space == "xmlns" || (a.Name.Space == "" && a.Name.Local == "xmlns") {
					continue
				}
				at := Attr{Local: a.Name.Local, Value: a.Value}
				if a.Name.Space != "" {
					if uri, ok := lookup(a.Name.Space); ok {
						at.Space = uri
					} else {
						add("ns-unbound", "attribute prefix %q not bound on %s:%s", a.Name.Space, a.Name.Space, a.Name.Local)
						at.Space = "unbound:" + a.Name.Space
					}
				}
				k := at.Space + "\x00" + at.Local
				if seenExp[k] {
					add("xml-wellformed", "duplicate expanded attribute %s on <%s>", at.Local, t.Name.Local)
				}
				seenExp[k] = true
				n.Attrs = append(n.Attrs, at)
			}
			if len(stack) == 1 {
				roots++
				if roots == 1 {
					root = n
				} else {
					add("xml-wellformed", "more than one root element")
				}
			} else {
				p := stack[len(stack)-2].node
				n.Parent = p
				p.Children = append(p.Children, n)
			}
			stack[len(stack)-1].node = n
		case xml.EndElement:
			if len(stack) == 0 {
				add("xml-wellformed", "unexpected end tag </%s>", t.Name.Local)
				return root, probs
			}
			top := stack[len(stack)-1]
			if top.raw != t.Name {
				add("xml-wellformed", "end tag </%s:%s> does not match <%s:%s>", t.Name.Space, t.Name.Local, top.raw.Space, top.raw.Local)
				return root, probs
			}
			stack = stack[:len(stack)-1]
		case xml.ProcInst:
			// the XML declaration is only allowed as the very first thing of the entity; the target "xml" (in any case) is
			// reserved everywhere else
			if strings.EqualFold(t.Target, "xml") && tokStart != 0 {
				add("xml-wellformed", "XML declaration (or a processing instruction with the reserved target %q) at offset %d, not at the start of the part", t.Target, tokStart)
			}
		case xml.CharData:
			if len(stack) == 0 {
				if len(bytes.TrimSpace(t)) != 0 {
					add("xml-wellformed", "character data outside the root element")
				}
			} else {
				stack[len(stack)-1].node.Text += string(t)
			}
		}
	}
	if len(probs) == 0 {
		if len(stack) != 0 {
			add("xml-wellformed", "unexpected EOF: <%s> not closed", stack[len(stack)-1].raw.Local)
		} else if roots == 0 {
			add("xml-wellformed", "no root element")
		}
	}
	return root, probs
}

// ShownText is the element's character data as a consumer shows it: leading and trailing white space only counts
// when the element itself says xml:space="preserve".
func (n *Node) ShownText() string {
	if v, ok := n.Attr(NsXML, "space"); ok && v == "preserve" {
		return n.Text
	}
	return strings.TrimSpace(n.Text)
}
