// vwork is both the driver ("drive") and the child worker ("work") of every check.
package main

import (
	"encoding/json"
	"flag"
	"fmt"
	"os"

	"github.com/zerx-lab/wordZero/pkg/document"

	"verifharness/internal/core"
	"verifharness/internal/props"
)

func main() {
	if len(os.Args) < 2 {
		fmt.Println("usage: vwork drive|work|replay|list ...")
		os.Exit(2)
	}
	document.SetGlobalLevel(document.LogLevelSilent)
	switch os.Args[1] {
	case "list":
		for _, id := range core.IDs() {
			fmt.Println(id)
		}
	case "c07child":
		props.C07Child(os.Args[2:])
	case "c05child":
		var seed uint64
		var idx int
		fmt.Sscan(os.Args[2], &seed)
		fmt.Sscan(os.Args[3], &idx)
		props.C05Child(seed, idx, os.Args[4], os.Args[5])
	case "drive":
		fs := flag.NewFlagSet("drive", flag.ExitOnError)
		prop := fs.String("prop", "", "")
		tier := fs.String("tier", "quick", "")
		seed := fs.Uint64("seed", 1, "")
		raceBin := fs.String("racebin", "", "")
		fs.Parse(os.Args[2:])
		self, _ := os.Executable()
		os.Exit(core.Drive(core.Options{Prop: *prop, Tier: *tier, Seed: *seed, Bin: self, RaceBin: *raceBin}))
	case "work":
		fs := flag.NewFlagSet("work", flag.ExitOnError)
		prop := fs.String("prop", "", "")
		tier := fs.String("tier", "quick", "")
		seed := fs.Uint64("seed", 1, "")
		k := fs.Int("k", 0, "")
		stride := fs.Int("stride", 1, "")
		start := fs.Int("start", 0, "")
		n := fs.Int("n", 0, "")
		journal := fs.String("journal", "", "")
		workdir := fs.String("workdir", "", "")
		race := fs.Bool("race", false, "")
		fs.Parse(os.Args[2:])
		ck := core.Get(*prop)
		if ck == nil {
			fmt.Fprintln(os.Stderr, "unknown property", *prop)
			os.Exit(3)
		}
		core.WorkerLoop(ck, *tier, *seed, *k, *stride, *start, *n, *journal, *workdir, *race)
	case "replay":
		fs := flag.NewFlagSet("replay", flag.ExitOnError)
		file := fs.String("file", "", "")
		prop := fs.String("prop", "", "")
		tier := fs.String("tier", "quick", "")
		seed := fs.Uint64("seed", 1, "")
		cs := fs.Int("case", 0, "")
		race := fs.Bool("race", false, "")
		fs.Parse(os.Args[2:])
		if *file != "" {
			b, err := os.ReadFile(*file)
			if err != nil {
				fmt.Println(err)
				os.Exit(2)
			}
			var rec struct {
				Property string `json:"property"`
				Tier     string `json:"tier"`
				Seed     uint64 `json:"seed"`
				Case     int    `json:"case"`
				Race     bool   `json:"race"`
			}
			if err := json.Unmarshal(b, &rec); err != nil {
				fmt.Println(err)
				os.Exit(2)
			}
			*prop, *tier, *seed, *cs, *race = rec.Property, rec.Tier, rec.Seed, rec.Case, rec.Race
		}
		ck := core.Get(*prop)
		if ck == nil {
			fmt.Println("unknown property", *prop)
			os.Exit(2)
		}
		wd, _ := os.MkdirTemp(core.VerifDir()+"/.build", "replay")
		defer os.RemoveAll(wd)
		ctx := &core.Ctx{Prop: *prop, Tier: *tier, Seed: *seed, Case: *cs, Verbose: true, WorkDir: wd, Race: *race}
		res := core.RunCase(ck, ctx)
		b, _ := json.MarshalIndent(res, "", "  ")
		fmt.Println(string(b))
		if len(res.Findings) > 0 {
			os.Exit(1)
		}
	default:
		fmt.Println("unknown subcommand", os.Args[1])
		os.Exit(2)
	}
}
