#!/bin/bash
# usage: seedrebase.sh <ID>...   re-bases seeded/<ID>/patch.diff onto /repo's HEAD with a three-way apply (scratch worktree under /var/tmp)
for id in "$@"; do
  WT=/var/tmp/vf-rebase-$$
  git -C /repo worktree add --detach "$WT" HEAD >/dev/null 2>&1 || { echo "$id: cannot create worktree"; continue; }
  if (cd "$WT" && git apply --3way "/verif/seeded/$id/patch.diff" >/dev/null 2>&1 && ! git status --short | grep -q '^U'); then
    (cd "$WT" && git diff HEAD > "/verif/seeded/$id/patch.diff") && echo "$id: re-based"
  else
    echo "$id: CONFLICT (re-base by hand)"
  fi
  git -C /repo worktree remove --force "$WT" >/dev/null 2>&1; rm -rf "$WT"
done
