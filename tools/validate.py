#!/usr/bin/env python3
"""Validates MANIFEST.json and every evidence file against the schemas in /root/.vp."""
import json, sys, os
try:
    import jsonschema
except ImportError:
    print("jsonschema not available in this interpreter (use python3-vt)"); sys.exit(2)
V = os.path.dirname(os.path.dirname(os.path.abspath(__file__)))
ok = True
m = json.load(open(os.path.join(V, "MANIFEST.json")))
jsonschema.validate(m, json.load(open("/root/.vp/MANIFEST.schema.json")))
es = json.load(open("/root/.vp/EVIDENCE.schema.json"))
props = [json.loads(l)["id"] for l in open(os.path.join(V, "properties.jsonl"))]
claimed = [c["property_id"] for c in m["checks"]]
na = [x["property_id"] for x in m.get("not_applicable", [])]
for p in props:
    if p not in claimed and p not in na:
        print("property neither claimed nor not_applicable:", p); ok = False
for c in m["checks"]:
    f = os.path.join(V, c["evidence_file"])
    if not os.path.exists(f):
        print("missing evidence", f); ok = False; continue
    e = json.load(open(f))
    try:
        jsonschema.validate(e, es)
    except jsonschema.ValidationError as ex:
        print("invalid evidence", f, ex.message[:200]); ok = False; continue
    if e["level"] != c["level_claimed"]["category"]:
        print("level mismatch", f); ok = False
    cov = e["coverage"]
    print("%s tier=%s evaluations=%s distinct=%s violations=%s wall=%.1fs" % (c["property_id"], e["tier"], cov.get("evaluations"), cov.get("distinct_nontrivial"), e.get("violations"), e["wall_s"]))
print("OK" if ok else "PROBLEMS")
sys.exit(0 if ok else 1)
