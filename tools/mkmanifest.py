#!/usr/bin/env python3
"""Writes /verif/MANIFEST.json from the table below (kept in one place so the file is always valid)."""
import json, os, subprocess
V = os.path.dirname(os.path.dirname(os.path.abspath(__file__)))
commits = subprocess.run(["git", "-C", "/repo", "log", "--format=%h %s", "--grep=^verif:"], capture_output=True, text=True).stdout.strip().splitlines()
hook_commits = [c.split()[0] for c in commits]

CHECKS = {
 "C01": ("exploration", "package monitor (independent OPC/XML reader) over saved outputs of generated API scripts", "3.1, 4/C01",
         "Held on the explored call sequences only: PRNG scripts over the public API with hostile strings, each saved through ToBytes and Save and read back by an independent OPC reader; nothing is proved for sequences/arguments outside the generators."),
 "C02": ("exploration", "relationship monitor (ids unique, targets exist, owner part, r:id kinds) over saved outputs of scripts and extended foreign packages", "3.1, 4/C02",
         "Held on the explored histories: relationship-heavy scripts with save/open cycles and harness-written foreign packages with arbitrary relationship ids that are opened and extended."),
 "C05": ("fault_enumeration", "fault injection (RLIMIT_FSIZE at every byte offset, strace-injected write/close errors, path faults) with file-vs-ToBytes oracle", "3.6, 4/C05",
         "Every byte offset of the output is failed for the small documents, flush boundaries/tail/stride for large ones; plus n-th write(2)/close(2) errors and unwritable targets. Success must mean a complete file equal to ToBytes."),
 "C06": ("exploration", "crash/hang monitor in child processes over structure-aware mutated packages + post-open script + well-formedness monitor", "3.4, 4/C06",
         "Held on the mutated inputs generated: every input is written to disk, opened in a child process under a watchdog; successful opens are followed by accessors, edits, export and re-save."),
 "C08": ("exploration", "reference list model checked after every call + saved w:body child order", "4/C08",
         "Held on generated append/remove/settings sequences: an ordered-list reference is compared with Body.Elements after each call and with the saved main part at random points."),
 "C09": ("exploration", "reference grid model + invariants + deep snapshot/alias monitors after every table call", "3.3, 4/C09",
         "Held on generated operation scripts over created, reopened and harness-built tables: model equality for regular tables, invariants/conservation/atomic errors everywhere, CopyTable aliasing by heap identity."),
 "C12": ("exploration", "reference record of page settings checked after every call, on the saved attributes and after reopen", "4/C12",
         "Held on generated setter sequences with boundary and near-standard sizes; tolerance half a twip and the documented 1 mm recognition tolerance."),
 "C13": ("exploration", "id-resolution monitor (styles, numbering, notes) over saved outputs + ledgers of API-created styles and of in-place changes to registered styles, checked at every save", "3.1, 4/C13",
         "Held on explored histories mixing style API calls, styled content, lists, notes, saves and reopen; ids resolved by an independent reader."),
 "C14": ("exploration", "reference resolver (visited-set walk, first definer wins) compared per formatting element with GetStyleWithInheritance/ApplyStyleToXML; registry snapshot, Clone alias and scribble monitors; crash monitor for non-termination", "3.3, 4/C14",
         "Held on generated registries: every element x definer depth 0..3 enumerated, random basedOn graphs with cycles, self-loops and missing parents; all ids resolved and compared with the reference; registry unchanged; clones independent."),
 "C16": ("exploration", "reference semantics evaluated on the generator's template AST, compared line by line with the paragraphs of RenderToDocument/RenderTemplateToDocument; failing cases delta-debugged on AST and data to a minimal case that names the finding", "4/C16",
         "Held on generated template/data pairs over the documented grammar (variables, if/else, each over scalars and maps with this/@index/@first/@last, nested each, blocks with inheritance, image placeholders, hostile literals) with directive-like, multi-line, non-string, empty and missing data."),
 "C11": ("exploration", "reference map kind -> latest call compared with what an independent reader resolves from w:sectPr through the relationships into the header/footer parts (token, text, PAGE field, alignment, run formatting)", "4/C11",
         "Held on generated call sequences with repeats, page settings, other content, save/open cycles and template rendering; every save is resolved and compared with the latest call per kind."),
 "C10": ("exploration", "image ledger (unique bytes per addition) compared with what an independent reader resolves from every a:blip through the relationships to the media bytes; extent model within 2 EMU; existing media of opened packages byte-compared", "4/C10",
         "Held on generated histories of body/cell/template image additions of three formats with hostile names and all size configurations, interleaved with other relationship-creating calls, save/open cycles and opened foreign packages carrying media."),
 "C15": ("exploration", "per-call ledgers (list requests, per-document note ledger, heading list) compared with what an independent reader resolves in the saved package: numId->num->abstractNum->lvl, notes parts per document, entries of the TOC control; counts and removal results compared at the API", "4/C15",
         "Held on generated list/note/TOC call sequences on new and reopened documents, one and several live documents, all list types/symbols/levels -1..25/start numbers, MaxLevel 1-9, update and regenerate."),
 "C07": ("exploration", "differential monitor (every script alone vs after / interleaved with / concurrent to other scripts: canonical packages and accessor results) + Go race detector over the concurrent workload, reports keyed by innermost library function pair", "3.5, 4/C07",
         "Held on generated groups of 2-8 scripts on distinct documents in three schedules (sequential, call-interleaved, goroutines with yields at hook points); the race binary observed no report on the interleavings that occurred."),
 "C17": ("exploration", "purity monitor (deep snapshots of template, base document and data around every render), repeatability and independence differential (re-render every loaded template after every cache mutation), race detector on one shared engine, linearizability check of the recorded cache history against a sequential map model (porcupine)", "3.3, 3.5, 4/C17",
         "Held on generated load/load-from-document/render/remove/clear sequences with inheritance chains and siblings, and on concurrent histories of 2-8 goroutines on one engine; linearizability decided per history with a timeout (timeout = inconclusive)."),
 "C18": ("exploration", "reference substitution on the independently read base document compared with the independently read rendered document: per-paragraph text, per-character run formatting of literal characters, w:pPr, break runs, body sequence, w:sectPr, loop table rows, header/footer text, pictures, untouched parts", "4/C18",
         "Held on generated base documents with placeholders cut at forced positions across 1-4 formatted runs in body, cells, nested tables, headers and footers (incl. packages with split header placeholders that are opened first), loop tables, image placeholders and hostile values."),
 "C03": ("exploration", "round-trip differential: public in-memory model before save vs after Open, canonical main part of the first save vs the save after reopening (structured diff keyed by element path), and stability over further open/save cycles", "3.2, 4/C03",
         "Held on API-built documents from the operation-script generator with a covering part in which each of 16 operation families dominates; differences are reported per element path."),
 "C04": ("exploration", "differential over harness-written foreign packages: parts byte-compared, content types and relationships compared semantically, run text ledger of the generator compared with the independently extracted text of the saved main part", "4/C04",
         "Held on generated foreign packages (arbitrary prefixes, wrappers around runs, extra parts with own relationships, media of any name, parts in other legal spellings and encodings, relationship targets in every legal spelling) opened and saved with and without append-only edits."),
 "C19": ("exploration", "crash/hang monitor + package monitor over hostile Markdown (inputs written to disk first) and token-sequence/formatting/structure comparison between the generator's block/inline tree and the converted document", "3.1, 3.4, 4/C19",
         "Held on hostile byte strings and on Markdown generated from the listed constructs with unique word tokens, under all 64 option combinations and TOC levels 0-7, with fresh and shared converters (options given at construction or with the call) and batches of files in different directories compared with their conversion alone."),
 "C20": ("exploration", "unique-token ledger of the generated document checked in the exported Markdown (exactly once, body order, independent tokenisation of the markers around each token) and round-trip differential export -> convert -> export (block kind per token, fixpoint of the Markdown)", "4/C20",
         "Held on generated documents over the exporter's vocabulary in every interleaving, with and without Markdown metacharacters in the text, under random export option combinations; the simple (non-GFM) table style is exempt from the round trip because it has no table syntax. Runs that touch inside a word are generated in half of the cases; three recorded known findings (KNOWN_FINDINGS.txt, DESIGN.md 7.1a) concern only those."),
}
PENDING = {}
ALL = ["C%02d" % i for i in range(1, 21)]

# allow per-property extension from a side file written by hand
extra = os.path.join(V, "tools", "checks.json")
if os.path.exists(extra):
    for k, v in json.load(open(extra)).items():
        CHECKS[k] = tuple(v)

checks = []
for pid in ALL:
    if pid not in CHECKS:
        continue
    level, tech, ref, text = CHECKS[pid]
    checks.append({
        "property_id": pid,
        "quick_cmd": "./check.sh %s quick" % pid,
        "thorough_cmd": "./check.sh %s thorough" % pid,
        "evidence_file": "evidence/%s.json" % pid,
        "replay_cmd_template": "./check.sh %s --replay {path}" % pid,
        "engine": "vwork",
        "level_claimed": {"category": level, "text": text, "design_ref": "DESIGN.md §" + ref},
        "level_note": "Trusted base: Go standard library (archive/zip, encoding/xml, reflect), the harness' own generators and reference models, the Go race detector where used. Verdicts hold for the executions observed, nothing more.",
        "technique": "runtime monitoring: " + tech,
    })
na = []
for pid in ALL:
    if pid not in CHECKS:
        na.append({"property_id": pid, "reason": PENDING.get(pid, "check under construction in this session (runtime monitor designed in DESIGN.md §4, not yet registered)")})
m = {
    "version": 1,
    "setup_cmd": "bash ./setup.sh",
    "hooks": {
        "guard": "verif",
        "enable": "go build -tags verif (check.sh builds harness/cmd/vwork against /repo with -tags verif; -race additionally for C07/C17)",
        "baseline_off_cmd": "cd /repo && GOFLAGS=-mod=mod go test -json -vet=off -count=1 -timeout 25m ./...",
        "source_commits": hook_commits,
        "add_only": True,
    },
    "engines": [{"name": "vwork", "path": "harness/cmd/vwork", "serves_properties": [c["property_id"] for c in checks],
                 "kind_free_text": "Go harness: driver + child-process workers linking the real library built with -tags verif; monitors in harness/internal (opc, deep, core/race); see DESIGN.md §2"}],
    "checks": checks,
    "not_applicable": na,
    "notes": "check.sh <ID> quick|thorough rebuilds the worker from /repo's working tree on every call. KNOWN_FINDINGS.txt lists recorded and fixed findings. VERIF_SEED selects the cases, counts are fixed per tier.",
}
json.dump(m, open(os.path.join(V, "MANIFEST.json"), "w"), indent=1)
print("wrote MANIFEST.json with", len(checks), "checks,", len(na), "not applicable")
