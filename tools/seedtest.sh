#!/bin/bash
# usage: seedtest.sh <PROP> <patch.diff> <demo_test.go> [tier] [check-props...]
# Confirms a seeded change (compiles, suite passes, demo fails with / passes without) in a scratch worktree of /repo
# outside /repo and /verif, then runs the property's check against the changed tree. Removes the worktree afterwards.
# env VERIF_HOME: run the check from that copy of /verif (e.g. a git worktree of a commit) instead of the working tree.
set -u
export GOFLAGS=-mod=mod GOPROXY=off GOSUMDB=off GOTOOLCHAIN=local
PROP=$1; PATCH=$(readlink -f "$2"); DEMO=$(readlink -f "$3"); TIER=${4:-quick}; shift 4 2>/dev/null || shift $#
CHECKS="${*:-$PROP}"
WT=/var/tmp/vf-seed-$$
git -C /repo worktree add --detach "$WT" HEAD >/dev/null 2>&1 || { echo "cannot create worktree"; exit 2; }
cleanup() { git -C /repo worktree remove --force "$WT" >/dev/null 2>&1; rm -rf "$WT"; }
trap cleanup EXIT
place=$(head -1 "$DEMO" | sed -n 's#^// place at: *##p' | tr -d '\r ')
[ -n "$place" ] || { echo "demo has no '// place at:' line"; exit 2; }
cd "$WT"
pkgdir=$(dirname "$place")
cp "$DEMO" "$WT/$place"
echo "== demo on unchanged tree (must pass)"
if go test -vet=off -count=1 ./$pkgdir/ -run "$(grep -o 'func Test[A-Za-z0-9_]*' "$DEMO" | sed 's/func //' | paste -sd'|')" >"$WT/.demo0.log" 2>&1; then echo "demo_without=pass"; else echo "demo_without=FAIL"; tail -5 "$WT/.demo0.log"; fi
rm -f "$WT/$place"
if ! git apply "$PATCH" 2>/dev/null; then
  # the tree has moved on since the change was written: try a three-way merge of the patch (tools/seedrebase.sh rewrites the stored patch that way)
  git apply --3way "$PATCH" >/dev/null 2>&1 && ! git status --short | grep -q '^U' && git reset -q || { echo "patch does not apply to HEAD"; exit 2; }
  echo "patch_applied=three-way"
fi
echo "== build + suite with the change (must pass)"
if go build ./pkg/... ./test/... >"$WT/.build.log" 2>&1 && go test -vet=off -count=1 ./pkg/... ./test/... >"$WT/.suite.log" 2>&1; then echo "suite_with=pass"; else echo "suite_with=FAIL"; tail -15 "$WT/.suite.log" "$WT/.build.log"; fi
cp "$DEMO" "$WT/$place"
echo "== demo with the change (must fail)"
if go test -vet=off -count=1 ./$pkgdir/ -run "$(grep -o 'func Test[A-Za-z0-9_]*' "$DEMO" | sed 's/func //' | paste -sd'|')" >"$WT/.demo1.log" 2>&1; then echo "demo_with=pass(!)"; else echo "demo_with=fail"; grep -m3 -E "^\s+.*_test.go|--- FAIL" "$WT/.demo1.log"; fi
rm -f "$WT/$place" "$WT"/.*.log
for c in $CHECKS; do
  echo "== check $c $TIER against the changed tree"
  (cd "${VERIF_HOME:-/verif}" && VERIF_REPO="$WT" VERIF_NOEVIDENCE=1 ./check.sh "$c" "$TIER" 2>&1 | grep -E "^VIOLATION|^  key=|^SUMMARY|^BROKEN|^KNOWN" | head -12)
done
