#!/bin/bash
# Re-evaluates every kept seeded change against the current tree and prints one line per change (4 at a time).
# env VERIF_HOME: run the checks from that copy of /verif (see seedtest.sh).
cd /verif
one() {
  d=$1; id=$(basename "$d"); prop=${id%%-*}
  extra=""
  [ "$id" = "C08-B" ] && extra="C08 C12"
  [ "$id" = "C13-L" ] && extra="C13 C15"
  [ "$id" = "C07-L" ] && extra="C07 C19"
  [ "$id" = "C11-N" ] && extra="C11 C02 C04"
  [ "$id" = "C07-M" ] && extra="C07 C18"
  [ "$id" = "C07-N" ] && extra="C07 C01"
  out=$(tools/seedtest.sh "$prop" "$d/patch.diff" "$d/demo_test.go" quick $extra 2>&1)
  keys=$(echo "$out" | grep -c '^  key=')
  conf=$(echo "$out" | grep -E '^(demo_without|suite_with|demo_with)=' | tr '\n' ' ')
  if echo "$out" | grep -q "patch does not apply"; then echo "$id NOT-APPLICABLE-TO-HEAD"; return; fi
  echo "$id $conf detected_keys=$keys"
}
export -f one
ls -d seeded/*/ | xargs -P "${SEEDALL_JOBS:-4}" -I{} bash -c 'one {}'
