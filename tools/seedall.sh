#!/bin/bash
# Re-evaluates every kept seeded change against the current tree and prints one line per change.
cd /verif
for d in seeded/*/; do
  id=$(basename "$d"); prop=${id%%-*}
  extra=""
  [ "$id" = "C08-B" ] && extra="C08 C12"
  [ "$id" = "C13-L" ] && extra="C13 C15"
  [ "$id" = "C07-L" ] && extra="C07 C19"
  out=$(tools/seedtest.sh "$prop" "$d/patch.diff" "$d/demo_test.go" quick $extra 2>&1)
  keys=$(echo "$out" | grep -c '^  key=')
  conf=$(echo "$out" | grep -E '^(demo_without|suite_with|demo_with)=' | tr '\n' ' ')
  if echo "$out" | grep -q "patch does not apply"; then echo "$id NOT-APPLICABLE-TO-HEAD"; continue; fi
  echo "$id $conf detected_keys=$keys"
done
