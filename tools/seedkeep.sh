#!/bin/bash
# usage: seedkeep.sh <PROP> <A|B|..> <srcdir> [tier] [extra check ids...]   -> runs seedtest and stores the material under seeded/<PROP>-<X>/
set -u
PROP=$1; X=$2; SRC=$3; TIER=${4:-quick}; shift 4 2>/dev/null || shift $#
V=/verif; D=$V/seeded/$PROP-$X
mkdir -p "$D"
if [ "$SRC" != "-" ]; then cp "$SRC/$X.diff" "$D/patch.diff"; cp "$SRC/${X}_demo_test.go" "$D/demo_test.go"; [ -f "$SRC/$X.md" ] && cp "$SRC/$X.md" "$D/notes.md"; fi
$V/tools/seedtest.sh "$PROP" "$D/patch.diff" "$D/demo_test.go" "$TIER" "$@" > "$D/result.txt" 2>&1
python3 - "$PROP" "$X" "$D" "$TIER" <<'PY'
import sys,json,re
prop,x,d,tier=sys.argv[1:5]
r=open(d+'/result.txt').read()
def g(k):
    m=re.search(k+r'=(\S+)',r); return m.group(1) if m else None
keys=re.findall(r'^  key=(\S+)',r,re.M)
notes=open(d+'/notes.md').read() if __import__('os').path.exists(d+'/notes.md') else ''
meta={"property":prop,"variant":x,"origin":"independent sub-agent given only the property text and a scratch worktree",
 "confirmed":{"demo_without_change":g('demo_without'),"suite_with_change":g('suite_with'),"demo_with_change":g('demo_with')},
 "needs_to_manifest":"see notes.md","ran":"tools/seedtest.sh %s patch.diff demo_test.go %s (scratch worktree under /var/tmp, removed afterwards)"%(prop,tier),
 "detected": len(keys)>0, "detected_by":{"check":prop,"tier":tier,"keys":keys[:8]}}
json.dump(meta,open(d+'/meta.json','w'),indent=1)
print(prop,x,meta["confirmed"],"detected" if keys else "MISSED",keys[:3])
PY
