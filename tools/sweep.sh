#!/bin/bash
# usage: sweep.sh <tier> <seed>...   runs every registered check once per seed and prints one line each
cd "$(dirname "$(readlink -f "$0")")/.."
tier=$1; shift
for seed in "$@"; do
  for id in $(python3 -c "import json;print(' '.join(c['property_id'] for c in json.load(open('MANIFEST.json'))['checks']))"); do
    t0=$(date +%s)
    out=$(VERIF_SEED=$seed VERIF_NOEVIDENCE=1 ./check.sh $id $tier 2>&1); rc=$?
    t1=$(date +%s)
    echo "seed=$seed $id rc=$rc wall=$((t1-t0))s $(echo "$out" | grep -E '^SUMMARY' | cut -c1-160)"
    echo "$out" | grep -E "^VIOLATION|^  key=|^BROKEN|^INCONCLUSIVE" | head -6
  done
done
