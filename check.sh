#!/bin/bash
# usage: check.sh <ID> <quick|thorough>      run the check of one property
#        check.sh <ID> --replay <file>       re-execute the case recorded in a replay file
# env:   VERIF_SEED (default 1)  VERIF_REPO (default /repo)  VERIF_JOBS (default nproc)
# exit:  0 held on everything explored | 1 VIOLATION | 2 broken check (build failure, monitors saw nothing)
set -u
export GOFLAGS=-mod=mod GOPROXY=off GOSUMDB=off GOTOOLCHAIN=local
VERIF="$(cd "$(dirname "${BASH_SOURCE[0]}")" && pwd)"
export VERIF_DIR="$VERIF"
REPO="${VERIF_REPO:-/repo}"
export VERIF_REPO_DIR="$REPO"
ID="${1:?property id}"
MODE="${2:-quick}"
BUILD="$VERIF/.build"
mkdir -p "$BUILD/run"
key=$(printf %s "$REPO" | md5sum | cut -c1-8)
MOD="$BUILD/go.$key.mod"
BIN="$BUILD/vwork.$key"
RBIN="$BUILD/vwork-race.$key"
needrace=0
case "$ID" in C07|C17) needrace=1;; esac
(
  flock 9
  sed "s#=> /repo#=> $REPO#" "$VERIF/harness/go.mod" > "$MOD"
  cp "$VERIF/harness/go.sum" "$BUILD/go.$key.sum"
  cd "$VERIF/harness" || exit 2
  go build -modfile="$MOD" -tags verif -o "$BIN.tmp.$$" ./cmd/vwork && mv "$BIN.tmp.$$" "$BIN" || exit 2
  if [ $needrace = 1 ] && [ "$MODE" != "--replay" ]; then
    go build -modfile="$MOD" -tags verif -race -o "$RBIN.tmp.$$" ./cmd/vwork && mv "$RBIN.tmp.$$" "$RBIN" || exit 2
  fi
) 9>"$BUILD/build.lock" > "$BUILD/build.$key.$$.log" 2>&1
rc=$?
if [ $rc != 0 ]; then
  echo "BROKEN property=$ID build of $REPO with -tags verif failed:"; tail -20 "$BUILD/build.$key.$$.log"; rm -f "$BUILD/build.$key.$$.log"; exit 2
fi
rm -f "$BUILD/build.$key.$$.log"
# private copy so that a concurrent rebuild cannot swap the binary under a running check
RUNBIN="$BUILD/run/vwork.$$"
cp "$BIN" "$RUNBIN"
trap 'rm -f "$RUNBIN" "$RUNBIN.race"' EXIT
if [ "$MODE" = "--replay" ]; then
  "$RUNBIN" replay -file "${3:?replay file}"
  exit $?
fi
RARG=""
if [ $needrace = 1 ]; then cp "$RBIN" "$RUNBIN.race"; RARG="-racebin $RUNBIN.race"; fi
"$RUNBIN" drive -prop "$ID" -tier "$MODE" -seed "${VERIF_SEED:-1}" $RARG
exit $?
