#!/bin/bash
# Run once after a fresh restore, offline: pre-builds the worker so that the first check is fast and verifies the toolchain.
set -e
export GOFLAGS=-mod=mod GOPROXY=off GOSUMDB=off GOTOOLCHAIN=local
cd "$(dirname "${BASH_SOURCE[0]}")"
mkdir -p .build/run evidence replays
cd harness
go build -tags verif -o ../.build/vwork.setup ./cmd/vwork
../.build/vwork.setup list >/dev/null
echo "setup ok: $(../.build/vwork.setup list | tr '\n' ' ')"
